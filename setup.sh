#!/bin/sh
# Offline setup: make sure Hypothesis is importable in /venv (it normally already is).
/venv/bin/python -c "import hypothesis" 2>/dev/null || \
  PIP_NO_INDEX=1 /venv/bin/pip install --no-index --find-links /opt/veriftools/wheels hypothesis
/venv/bin/python -c "import hypothesis, numpy, scipy; print('setup ok: hypothesis', hypothesis.__version__)"
