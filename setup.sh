#!/bin/sh
# Offline setup: make sure Hypothesis is importable in /venv (it normally already is) and put
# atheris (used only by the thorough tier's coverage-guided stage, vk/fuzz.py) into ./.deps.
HERE=$(cd "$(dirname "$0")" && pwd)
/venv/bin/python -c "import hypothesis" 2>/dev/null || \
  PIP_NO_INDEX=1 /venv/bin/pip install --no-index --find-links /opt/veriftools/wheels hypothesis
[ -d "$HERE/.deps/atheris" ] || \
  PIP_NO_INDEX=1 /venv/bin/pip install -q --no-index --find-links /opt/veriftools/wheels --target "$HERE/.deps" atheris \
  || echo "setup: atheris not installed; the coverage-guided stage will report itself skipped"
/venv/bin/python -c "import hypothesis, numpy, scipy; print('setup ok: hypothesis', hypothesis.__version__)"
