#!/venv/bin/python
"""Evaluate a seeded change produced by a sub-agent (maintenance helper, never run by a check).

usage: tools/seeded.py <seed-id> <property> <worktree> [--checks C03,C02] [--tier quick] [--tests]

1. demo.py must fail with the change (worktree as delivered) and pass without it (git stash);
2. optionally (--tests) the repository's own test suite must pass with the change;
3. the patch is applied to /repo, the listed checks are run, and it is undone straight afterwards;
4. patch.diff, demo.py and meta.json are stored under /verif/seeded/<seed-id>/."""
import argparse
import json
import os
import shutil
import subprocess
import sys
import time

HERE = os.path.dirname(os.path.dirname(os.path.abspath(__file__)))


def sh(cmd, **kw):
    return subprocess.run(cmd, shell=True, capture_output=True, text=True, **kw)


def main():
    ap = argparse.ArgumentParser()
    ap.add_argument("sid")
    ap.add_argument("prop")
    ap.add_argument("wt")
    ap.add_argument("--checks", default=None)
    ap.add_argument("--tier", default="quick")
    ap.add_argument("--tests", action="store_true")
    ap.add_argument("--needs", default="")
    ap.add_argument("--desc", default="")
    a = ap.parse_args()
    wt = a.wt
    env = dict(os.environ, PYTHONPATH=f"{wt}/src:/tmp/otshim", PYTHONHASHSEED="0", LOKY_MAX_CPU_COUNT="2", OMP_NUM_THREADS="1")
    meta = {"id": a.sid, "property": a.prop, "description": a.desc, "needs_to_manifest": a.needs, "ran": []}
    # 1. demo both ways
    # (no git stash: the stash stack is shared by all worktrees of a repository)
    sh(f"cd {wt} && git checkout -- tests; git diff -- src > patch.diff")
    r1 = sh(f"cd {wt} && /venv/bin/python demo.py", env=env)
    sh(f"cd {wt} && git apply -R patch.diff")
    r0 = sh(f"cd {wt} && /venv/bin/python demo.py", env=env)
    sh(f"cd {wt} && git apply patch.diff")
    meta["demo_with_change_exit"] = r1.returncode
    meta["demo_without_change_exit"] = r0.returncode
    meta["demo_with_change_tail"] = (r1.stdout + r1.stderr)[-600:]
    meta["ran"].append("demo.py with the change and with it reverse-applied (PYTHONPATH=<worktree>/src)")
    print(f"demo: with change exit {r1.returncode}, without exit {r0.returncode}")
    if r1.returncode == 0 or r0.returncode != 0:
        print("REJECT: demo does not discriminate")
        print(r1.stdout[-500:], r1.stderr[-500:], r0.stdout[-300:], r0.stderr[-300:])
        sys.exit(1)
    # 2. test suite
    if a.tests:
        t0 = time.time()
        rt = sh(f"cd {wt} && /venv/bin/python -m pytest -q -p no:cacheprovider -n 8 tests 2>&1 | grep -E \"passed|failed|error\" | tail -1", env=env)
        meta["repo_tests_with_change"] = rt.stdout.strip().splitlines()[-1] if rt.stdout.strip() else "?"
        meta["ran"].append("repository test suite (374 tests) against the worktree with the change")
        print("tests:", meta["repo_tests_with_change"], f"{time.time()-t0:.0f}s")
        sh(f"cd {wt} && git checkout -- tests")
        if "failed" in meta["repo_tests_with_change"] or "error" in meta["repo_tests_with_change"]:
            print("REJECT: test suite fails with the change")
            sys.exit(1)
    # 3. run our checks against /repo with the patch applied
    patch = os.path.join(wt, "patch.diff")
    sh(f"cd {wt} && git diff -- src > patch.diff")
    chk = sh(f"git -C /repo apply --check {patch}")
    if chk.returncode != 0:
        print("REJECT: patch does not apply to /repo:", chk.stderr)
        sys.exit(1)
    checks = (a.checks or a.prop).split(",")
    results = {}
    sh(f"git -C /repo apply {patch}")
    try:
        for c in checks:
            t0 = time.time()
            ev = f"/tmp/seeded-ev-{a.sid}"
            r = sh(f"cd {HERE} && ./check {c} --tier {a.tier}",
                   env=dict(os.environ, VK_EVIDENCE_DIR=ev, VK_REPLAY_DIR=ev, VK_SHRINK="0"))
            verdict = {0: "MISSED", 1: "caught", 2: "harness-error"}.get(r.returncode, str(r.returncode))
            first = next((l for l in r.stdout.splitlines() if l.startswith("  #")), "")
            results[c] = {"verdict": verdict, "wall_s": round(time.time() - t0, 1), "first": first[:400]}
            print(f"{c}: {verdict} {results[c]['wall_s']}s {first[:200]}")
            shutil.rmtree(ev, ignore_errors=True)
    finally:
        sh("git -C /repo checkout -- .")
    st = sh("git -C /repo status --short").stdout
    assert st.strip() == "", st
    meta["checks"] = results
    meta["ran"].append(f"git -C /repo apply patch.diff; ./check <id> --tier {a.tier} for {checks}; git -C /repo checkout -- .")
    d = os.path.join(HERE, "seeded", a.sid)
    os.makedirs(d, exist_ok=True)
    shutil.copy(patch, os.path.join(d, "patch.diff"))
    shutil.copy(os.path.join(wt, "demo.py"), os.path.join(d, "demo.py"))
    json.dump(meta, open(os.path.join(d, "meta.json"), "w"), indent=1)
    print("stored", d)


main()
