#!/venv/bin/python
"""Re-runs the target property's check against every stored seeded change, on a scratch copy of
/repo's HEAD src with the patch applied (never touches /repo).  Maintenance helper.
usage: tools/seeded_recheck.py [--only S-C07...] [--scale 1]"""
import argparse
import glob
import json
import os
import shutil
import subprocess
import tempfile
import time

HERE = os.path.dirname(os.path.dirname(os.path.abspath(__file__)))


def main():
    ap = argparse.ArgumentParser()
    ap.add_argument("--only", action="append")
    ap.add_argument("--scale", default="1")
    a = ap.parse_args()
    head = subprocess.run("git -C /repo rev-parse --short HEAD", shell=True, capture_output=True, text=True).stdout.strip()
    bad = []
    for d in sorted(glob.glob(os.path.join(HERE, "seeded", "S*"))):
        sid = os.path.basename(d)
        if a.only and sid not in a.only:
            continue
        m = json.load(open(os.path.join(d, "meta.json")))
        tmp = tempfile.mkdtemp(prefix="vk-seedrc-")
        try:
            subprocess.run(f"git -C /repo archive HEAD src | tar -x -C {tmp}", shell=True, check=True)
            r = subprocess.run(f"cd {tmp} && patch -p1 -s < {d}/patch.diff", shell=True, capture_output=True, text=True)
            if r.returncode != 0:
                print(f"{sid}: patch does not apply to {head}: {r.stdout[-200:]}")
                m["recheck"] = {"repo_head": head, "verdict": "patch-does-not-apply"}
                bad.append(sid)
            else:
                t0 = time.time()
                env = dict(os.environ, VK_SRC=os.path.join(tmp, "src"), VK_SHRINK="0", VK_SCALE=a.scale,
                           VK_EVIDENCE_DIR=os.path.join(tmp, "ev"), VK_REPLAY_DIR=os.path.join(tmp, "rp"))
                r = subprocess.run([os.path.join(HERE, "check"), m["property"], "--tier", "quick"], env=env,
                                   capture_output=True, text=True)
                verdict = {0: "MISSED", 1: "caught", 2: "harness-error"}.get(r.returncode, str(r.returncode))
                first = next((l for l in r.stdout.splitlines() if l.startswith("  #")), "")
                print(f"{sid}: {m['property']} {verdict} {time.time() - t0:.0f}s {first[:160]}")
                m["recheck"] = {"repo_head": head, "verdict": verdict, "first": first[:300]}
                if verdict != "caught":
                    bad.append(sid)
            json.dump(m, open(os.path.join(d, "meta.json"), "w"), indent=1)
        finally:
            shutil.rmtree(tmp, ignore_errors=True)
    print("not caught:", bad)


main()
