#!/venv/bin/python
"""Regenerates the sub-agent table in DESIGN.md section 10 from seeded/*/meta.json."""
import glob, json
rows = []
n_hist = 0
hist_ids = []
for d in sorted(glob.glob('/verif/seeded/S*')):
    m = json.load(open(d + '/meta.json'))
    caught = [k for k, v in m['checks'].items() if v['verdict'] == 'caught']
    missed = [k for k, v in m['checks'].items() if v['verdict'] != 'caught']
    note = ' — **after strengthening** (see meta.json history)' if m.get('history') else ''
    n_hist += bool(m.get('history'))
    if m.get('history'):
        hist_ids.append(m['id'])
    rows.append(f"| {m['id']} | {m['property']} | {m['needs_to_manifest']} | {', '.join(caught)}{(' (' + ', '.join(missed) + ' not)') if missed else ''}{note} |")
tbl = "| id | property | what it needs to manifest | caught by |\n|---|---|---|---|\n" + "\n".join(rows)
p = '/verif/DESIGN.md'
s = open(p).read()
i = s.index("| id | property | what it needs to manifest | caught by |")
s = s[:i] + tbl + f'''

All {len(rows)} stored sub-agent changes are caught by the check of the property they target, with one exception:
S7-C13-alaska-stored-stv-stage was written against C13 but leaves Alaska's recorded rounds (C13's subject) correct and
breaks only the profile `get_profile` returns for the final round - the clause of C09, whose check catches it. {n_hist} of them
were caught only after the generator / parameter sets were strengthened ({", ".join(hist_ids)}) — either after a
first miss, or because the change description showed (and a run on a patched scratch copy confirmed) that
the existing generator could not reach the trigger; each meta.json `history` says which. Each meta.json
also records the demonstration (fails with the change, passes without), the repository's own 374 tests
passing with the change, the verdict of every check that was run against it, and a final `recheck` of
the target property's check against the patch on the last tree (`tools/seeded_recheck.py`). Waves 3-7
asked further agents for a change on a *less obvious* clause; four of them (C01, C06, C12, C14)
independently produced the very same edit as the earlier agent for that property and were not stored twice.
Waves 8-9 steered the agents away from the functions already changed; waves 10-11 asked for state-leakage /
call-history defects (caches, mutable defaults, class-level containers, aliasing, in-place edits). The `recheck`
of the waves before 8 was done on the final tree (the last 31 at 0.6 of the quick budget); waves 8-11 were
evaluated on essentially that tree.
'''
open(p, 'w').write(s)
print(len(rows), 'rows,', n_hist, 'with history')
