#!/venv/bin/python
"""Maintenance helper (never run by a check): add an entry to known_findings.json.
usage: tools/findings.py add <id> <property> <known|fixed> <subcheck> <failure> <predicate|-> <commit|-> <text> <replay.json>..."""
import json, sys, os
HERE = os.path.dirname(os.path.dirname(os.path.abspath(__file__)))
P = os.path.join(HERE, "known_findings.json")
def main():
    _, cmd, fid, prop, status, sub, failure, pred, commit, text, *files = sys.argv
    data = json.load(open(P))
    repro = []
    for f in files:
        d = json.load(open(f))
        repro.append(d["case"] if "case" in d else d)
    ent = {"id": fid, "property": prop, "status": status,
           "signature": {"subcheck": None if sub == "-" else sub, "failure": None if failure == "-" else failure,
                         "predicate": None if pred == "-" else pred},
           "text": text, "repro": repro}
    if commit != "-":
        ent["commit"] = commit
    data["findings"] = [e for e in data["findings"] if e["id"] != fid] + [ent]
    json.dump(data, open(P, "w"), indent=1)
main()
