#!/venv/bin/python
"""Sensitivity runs (DESIGN 1.8): break the tree on purpose in a scratch copy of /repo/src and
confirm the check fails.  Never touches /repo.  usage: tools/mut.py [-p C11] [-m name] [--scale .3]"""
import argparse
import json
import os
import shutil
import subprocess
import sys
import tempfile
import time

HERE = os.path.dirname(os.path.dirname(os.path.abspath(__file__)))
sys.path.insert(0, os.path.join(HERE, "tools"))
from mutants import MUTANTS  # noqa: E402


def main():
    ap = argparse.ArgumentParser()
    ap.add_argument("-p", "--prop", action="append")
    ap.add_argument("-m", "--mutant", action="append")
    ap.add_argument("--scale", default="1")
    ap.add_argument("--tier", default="quick")
    args = ap.parse_args()
    results = []
    for m in MUTANTS:
        name, relfile, old, new, props = m
        if args.mutant and name not in args.mutant:
            continue
        props_run = [p for p in props if not args.prop or p in args.prop]
        if not props_run:
            continue
        tmp = tempfile.mkdtemp(prefix="vk-mut-")
        try:
            shutil.copytree(os.environ.get("MUT_BASE", "/repo/src"), os.path.join(tmp, "src"))
            path = os.path.join(tmp, "src", "votekit", relfile)
            s = open(path).read()
            if s.count(old) < 1:
                print(f"MUTANT {name}: pattern not found in {relfile}")
                results.append((name, "-", "pattern-missing", 0))
                continue
            open(path, "w").write(s.replace(old, new, 1))
            for p in props_run:
                env = dict(os.environ, VK_SRC=os.path.join(tmp, "src"), VK_SCALE=args.scale,
                           VK_SHRINK="0", VK_EVIDENCE_DIR=os.path.join(tmp, "ev"),
                           VK_REPLAY_DIR=os.path.join(tmp, "rp"))
                t0 = time.time()
                r = subprocess.run([os.path.join(HERE, "check"), p, "--tier", args.tier],
                                   env=env, capture_output=True, text=True)
                verdict = {0: "MISSED", 1: "caught", 2: "harness-error"}.get(r.returncode, str(r.returncode))
                first = next((l for l in r.stdout.splitlines() if l.startswith("  #")), "")
                print(f"MUTANT {name:40s} {p} {verdict:8s} {time.time()-t0:5.1f}s {first[:150]}")
                if verdict == "harness-error":
                    print(r.stdout[-1500:], r.stderr[-1500:])
                results.append((name, p, verdict, round(time.time() - t0, 1)))
                sys.stdout.flush()
        finally:
            shutil.rmtree(tmp, ignore_errors=True)
    missed = [r for r in results if r[2] != "caught"]
    print(f"{len(results)} runs, {len(missed)} not caught: {missed}")


main()
