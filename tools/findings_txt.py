#!/venv/bin/python
"""Writes /verif/KNOWN_FINDINGS.txt (plain-text view of known_findings.json; maintenance helper)."""
import json, os
HERE = os.path.dirname(os.path.dirname(os.path.abspath(__file__)))
d = json.load(open(os.path.join(HERE, "known_findings.json")))
lines = ["# Plain-text view of known_findings.json (the JSON file is what the checks read).",
         "# known: a genuine defect recorded, not repaired; the check prints KNOWN-FINDING and exits 0 for it.",
         "# fixed: repaired by the named fix: commit in /repo; suppresses nothing, a recurrence is a VIOLATION.", ""]
for e in d["findings"]:
    if e["status"] == "fixed":
        lines.append(f"fixed: property={e['property']} {e.get('commit','?')} {e['text']}  [id {e['id']}]")
    else:
        sig = e["signature"]
        lines.append(f"known: property={e['property']} {e['text']}  [id {e['id']}; matched by subcheck={sig.get('subcheck')} failure={sig.get('failure')} predicate={sig.get('predicate')}]")
open(os.path.join(HERE, "KNOWN_FINDINGS.txt"), "w").write("\n".join(lines) + "\n")
print(len(d["findings"]), "entries")
