#!/venv/bin/python
"""Regenerates /verif/MANIFEST.json from the table below (maintenance helper, not a check)."""
import json
import os

HERE = os.path.dirname(os.path.dirname(os.path.abspath(__file__)))

# id -> (level text, level note, technique, design ref)
CLAIMED = {
    "C11": (
        "Generated ballots/profiles (all four ballot shapes, int/rational/float numbers, ids, voter "
        "sets) and derived profile pairs (permuted, split, one content changed, independent) are "
        "compared with a content->weight model written from the property text: storage, "
        "immutability, derived fields, condense (distinct, weights, idempotent, order-free), "
        "equality in both directions and addition.  Held on everything generated; no absence claim.",
        "Trusts Hypothesis generation and Python's Fraction arithmetic; zero-weight ballots, empty "
        "profiles and |x| < 1e-5 are outside the domain.",
        "property-based testing (Hypothesis) against a content->weight reference model",
        "3/C11",
    ),
    "C04": (
        "Generated tied/partial profiles x score vectors (int, rational, dyadic and arbitrary floats; "
        "short/equal/long) are scored by an independent exact-rational implementation of the definition and "
        "compared with score_profile_from_rankings / first_place_votes / borda_scores / mentions (exact "
        "equality, per-ballot point conservation); Plurality/SNTV/Borda outcomes are judged by validity "
        "predicates (m winners, no loser outscoring a winner, descending order, equal scores tied unless a "
        "recorded tiebreak separated them, ValueError iff an unbroken boundary tie).  Thorough enumerates every "
        "tied-position shape over <= 4 candidates.  Held on everything generated.",
        "Trusts the harness's reference scorer (vk/ref/scoring.py) and Fraction arithmetic; arbitrary float "
        "vectors compared to 1e-9 relative, election-level checks restricted to int/rational/dyadic vectors.",
        "property-based testing (Hypothesis) against an exact-rational reference scorer + bounded-exhaustive tie shapes",
        "3/C04",
    ),
    "C12": (
        "Generated profiles / ballot tuples / single ballots (tied positions, partial ballots, scores, rational "
        "weights) x removal sets (none, some, all, absent names; planted exhausted and coinciding ballots) x "
        "condense x leave_zero flags are compared, as content->weight maps, with a per-ballot pure function on "
        "plain data; add_missing_cands, expand_tied_ballot (exact multiset of linear extensions at w/prod k!), "
        "resolve_profile_ties and the cleaning module (loader-style ballots with repeats and blanks) likewise.  "
        "Thorough enumerates every tied shape over <= 4 candidates.  Held on everything generated.",
        "Trusts the harness's plain-data model; ids / voter sets not compared except merge_ballots' union; "
        "remove_noncands may or may not de-duplicate on inputs with repeats (both accepted).",
        "property-based testing (Hypothesis) against a plain-data reference model + bounded-exhaustive tie shapes",
        "3/C12",
    ),
    "C02": (
        "Every recorded round of generated STV / IRV / SequentialRCV counts (partial ballots, rational weights, "
        "zero-vote candidates, tie-rich profiles; both quotas, both modes, all tiebreak settings; every random "
        "choice scripted or seeded) is judged by an independent exact-rational reference step model written from "
        "the statement: threshold, who may be elected / eliminated, elimination ties by initial tally, transfer "
        "weights, resulting tallies and order; partial records are judged too when the constructor raises, and a "
        "ValueError is accepted only at a model-confirmed one-by-one tie with tiebreak=None.  Thorough enumerates "
        "all profiles of <= 3 distinct rankings over 3 candidates with weights 1..3 x 12 configurations.",
        "Trusts vk/ref/stv.py; elected sets compared as sets; rounds where quota-reachers outnumber seats and "
        "Hare quota 0 are attributed to known findings F10a/F10b (input predicate + model-confirmed state).",
        "property-based testing (Hypothesis, scripted randomness) against a reference step model + bounded-exhaustive small profiles",
        "3/C02",
    ),
    "C03": (
        "Direct fractional_transfer / random_transfer calls on generated ballot lists (duplicates, exhausted "
        "ballots, ballots not led by the winner, winner listed lower; caller precondition fpv = real tally) are "
        "compared with the definition: exact ranking->weight map for the fractional rule; for the random rule "
        "whole-ballot sub-collection, per-ranking bounds and exact surplus size, plus a chi-square test of the "
        "selection against the multivariate hypergeometric law over seeded repetitions.  Whole STV counts with "
        "either rule are balanced round by round from the recorded entering/leaving profiles (threshold per "
        "quota-elected candidate + exhausted weight; weight never increases).",
        "Trusts the harness's balance arithmetic; uniformity decided at 1e-9/tests per run; the random rule is "
        "read as sampling among the winner's transferable ballots.",
        "property-based testing (Hypothesis) against the transfer definitions, round-by-round conservation invariant, chi-square GOF for the random selection",
        "3/C03",
    ),
    "C01": (
        "All 18 rule classes are constructed on generated valid profiles (ranked: partial/tied/zero-vote/"
        "rational; scored: limits met by construction) x every configuration x seeded or scripted random "
        "choices.  Oracles are validity predicates on the finished object, not expected winners: progress bound "
        "(termination), exactly m winners (1 for IRV/TopTwo, brute-force Smith set for DominatingSets), every "
        "round's elected+remaining+eliminated list each candidate once, statuses monotone, and the exception "
        "policy: only ValueError with tiebreak=None and only where the harness exhibits the boundary tie from "
        "independently computed tallies (reference STV model for the STV family / Alaska's stage).",
        "Progress bound 3n+10 rounds stands in for termination; known findings F10a/b, F12, F13, F14 are "
        "attributed by input predicates plus model-confirmed state and counted, everything else is a violation.",
        "property-based testing (Hypothesis, scripted randomness) with validity-predicate oracles and reference tallies",
        "3/C01",
    ),
    "C13": (
        "Differential: the recorded rounds of IRV, SNTV, SequentialRCV, TopTwo and Alaska on generated untied "
        "profiles are compared with those of separately constructed components under one shared seed or script "
        "(STV m=1; Plurality; STV with a harness-written full-weight transfer; Plurality(2) then Plurality(1) on "
        "the harness-reduced profile plus a direct runoff oracle; Plurality(m_1) -> harness removal -> STV(m_2)); "
        "exception types must agree and round numbers must equal indices.",
        "Both sides are VoteKit components (differential), the reduction and the runoff oracle are harness code; "
        "with random_transfer and at least one draw only the rounds before the first sampled transfer are compared; "
        "Alaska's replay KeyError is known finding F14-C13.",
        "differential property-based testing (Hypothesis) under a shared scripted/seeded random stream",
        "3/C13",
    ),
    "C07": (
        "Axiomatic oracle sharing nothing with the implementation: on generated profiles with planted solid "
        "coalitions, for EVERY non-empty candidate subset S (all 2^n-1, n <= 6) the finished Droop STV / IRV count "
        "must elect at least min(floor(W(S)/threshold), |S|, m) members of S, with either transfer rule, both "
        "modes, scripted or seeded random tiebreaks and random transfers.  Thorough adds the exhaustive "
        "3-candidate profiles.",
        "W(S) counts ballots whose first |S| places are exactly S; runs that raise are left to C01/C02.",
        "property-based testing (Hypothesis, planted coalitions) against the Droop-proportionality axiom over all subsets",
        "3/C07",
    ),
    "C05": (
        "For each of Rating/Approval/Limited/Cumulative/BlocPlurality/GeneralRating a score profile valid by "
        "construction is generated together with ONE single-violation variant at a generated ballot index "
        "(scores removed / all zero, one negative score, one score L+1e-6 or gross, total k+1e-6 or gross) and the "
        "boundary-exact variants (== L, == k).  Oracle: invalid -> TypeError out of the constructor with no recorded "
        "round; valid and boundary -> round-0 totals equal sum(weight*score) exactly, m winners none below a loser, "
        "ValueError iff an unbroken boundary tie.",
        "Scores are exact Fractions so the 1e-6 margins are real; the tally oracle is harness code.",
        "property-based testing (Hypothesis) with single-fault variants and an exact tally oracle",
        "3/C05",
    ),
    "C06": (
        "On generated untied profiles (partial ballots, rational weights, zero-vote candidates, planted cycles in "
        "and below the top tier, pairwise ties) the pairwise dictionary is compared with margins computed from the "
        "definition, dominating_tiers() with a brute-force enumeration of all dominating subsets (no graph "
        "library), the Condorcet queries with 'beats all others', DominatingSets with tier 0 / ordered lower tiers, "
        "and CondoBorda with whole tiers in order plus Borda order inside the straddling tier.",
        "n <= 6 because ballot filling and the subset enumeration are factorial/exponential; Borda oracle from C04.",
        "property-based testing (Hypothesis) against definition-level margins and brute-force Smith tiers",
        "3/C06",
    ),
    "C09": (
        "Histories: a finished draw-free election of any rule followed by a generated sequence (repetition, any "
        "order, indices in [-L-2, L+2]) of get_profile / get_step / get_elected / get_eliminated / get_remaining / "
        "get_ranking / get_status_df / len / str, as plain-data op lists and additionally as a Hypothesis "
        "RuleBasedStateMachine.  A model captured at construction (copy of the recorded rounds + answers derived "
        "from the records) is compared after every step: purity of the records, cumulative answers, negative-index "
        "equivalence, IndexError out of range, get_profile's candidates = round r's remaining, re-scoring = round "
        "r's recorded tallies, status frame, and 'queries on a draw-free election draw nothing'.",
        "Only elections whose construction drew no random number are judged (stated domain); order inside a tied "
        "group of the status frame is free.",
        "model-based stateful property testing (Hypothesis op-list histories + RuleBasedStateMachine)",
        "3/C09",
    ),
    "C10": (
        "Each generated case (every non-random rule, tie-rich profiles, all tiebreak settings) is run under three "
        "random layers (generated seed-or-script, all-zeros script, all-999 script).  (a) metamorphic: with no "
        "recorded tiebreak all three outcomes are identical; (b) every recorded tiebreak is judged against "
        "independently computed tallies/tiers: genuine tie at the seat boundary or elimination end, resolution a "
        "strict order of exactly that set, obeyed by the round's groups, and no tie decision without a record; "
        "(c) borda / first_place resolutions are non-increasing in that score of the profile in hand (captured on "
        "entry of the round).",
        "Deciding tally of a round = previous round's recorded scores (C02/C04 tie those to the ballots); "
        "random_transfer and the intentionally random rules are excluded; inner STV rounds of Alaska are not "
        "checked for clause (c).",
        "property-based testing (Hypothesis) with scripted random streams: metamorphic seed-independence + tiebreak-record validity predicates",
        "3/C10",
    ),
    "C08": (
        "Metamorphic: each generated (rule, profile, configuration) is paired with a transformed copy (candidate "
        "bijection onto names with different sort/hash order, ballot permutation, splitting into identical ballots "
        "whose weights add up, merging identical ballots, permuted candidate list); every round of the transformed "
        "run, the scoring utilities and the pairwise graph must equal the renamed original, exception types "
        "included, whenever neither run drew a random number.  Hash seed: a batch of generated cases is evaluated in "
        "fresh interpreters with PYTHONHASHSEED 1, 2, 3 and compared with the parent's serialised outcomes (seed 0).",
        "Pairs with a random draw or a recorded tiebreak are skipped and counted; four hash seeds are sampled, not all.",
        "metamorphic property-based testing (Hypothesis) + differential runs across PYTHONHASHSEED values in fresh interpreters",
        "3/C08",
    ),
    "C20": (
        "For each documented precondition (ballot without ranking, tied position for the STV family, non-integer "
        "weight for PluralityVeto / random_transfer directly and through STV, missing scores, m outside 1..n, "
        "Alaska stage sizes, negative / increasing score vector, non-positive or inconsistent rating limits, "
        "unknown quota, generator proportion / cohesion sums, bloc-name mismatches, overlapping intervals, "
        "duplicate candidates) a valid request is generated together with exactly one violation (smallest margin "
        "and gross, at a generated ballot index).  Oracle: the documented exception type escapes, no round was "
        "recorded, and the unperturbed request and the accepted boundary values succeed.",
        "pydantic's ValidationError counts as ValueError; acceptance runs use random tiebreaks and complete "
        "ballots; Alaska acceptance runs that hit finding F14 are excluded and counted.",
        "property-based testing (Hypothesis) with single-fault injection into valid requests",
        "3/C20",
    ),
    "C19": (
        "lp_dist on generated triples of untied profiles x p in {1..6, 'inf'} is compared with the p-norm of "
        "exact-rational normalised distributions (relative 1e-9), checked for symmetry and the triangle inequality "
        "(1e-12), for distance exactly 0 against reordered / condensed / rescaled copies and > 0 exactly when the "
        "distributions differ.  The ballot graph for every n from 2 to 5 (6 in the thorough tier) is compared node "
        "by node and edge by edge with the harness's enumeration of the definition (exhaustive), and generated "
        "profiles loaded onto it must put each ballot's weight on the node given by the candidate numbering, with "
        "length n-1 completed and weights summing to the profile total.",
        "Floating-point comparison at stated tolerances; weights with small denominators so distinct distributions "
        "are distinct floats.",
        "property-based testing (Hypothesis) against an exact-rational norm + exhaustive graph enumeration n <= 6",
        "3/C19",
    ),
    "C18": (
        "A table model (header, rows, optional id / weight columns at any position, 1-6 rank columns, blanks, "
        "repeated rows, names with spaces / quotes / commas / non-ASCII, four delimiters, rank_cols any ordered "
        "sub-sequence) is written with csv.writer and loaded back: the ranking -> (weight, voter set) map must equal "
        "grouping the model's rows by the selected cells, total weight = row count or summed weights; the documented "
        "exceptions for missing file, zero bytes, header only, blank id, duplicate id.  Scottish files from a model "
        "(seats, ward, names, parties, multiplicities, blank rows) and their inconsistent-metadata variants; to_csv "
        "rows parsed back to weight, ranking and scores.",
        "Cells never use strings pandas re-types by itself (NA tokens, true/false, numerics); with a weight column "
        "rank_cols is always given.",
        "round-trip property-based testing (Hypothesis) against a table model written to per-case temp files",
        "3/C18",
    ),
    "C14": (
        "Every generator class (17 entry points incl. MCMC variants, from_point / from_alpha, "
        "generate_profile_with_dict) is run on generated parameter sets (1-3 blocs, slate sizes 1-3, supports with "
        "exact zeros, 0/1 cohesion and proportion entries, N in 1..60, seeded streams, by_bloc on and off) and judged "
        "by validity predicates: exact size, whole positive weights, declared candidates, no repeats, completeness "
        "with zero-support candidates as one final tie, short-PL length, cumulative point count on supported "
        "candidates, per-bloc maps adding up to the aggregate, and a Huntington-Hill predicate (exact-rational "
        "divisor-method inequality) for bloc sizes and the bloc/crossover split.",
        "AlternatingCrossover / CambridgeSampler are not checked for completeness; spatial models get explicit "
        "kwargs; N < number of voter types is known finding F15 (dependency behaviour).",
        "property-based testing (Hypothesis) with validity-predicate oracles incl. an exact Huntington-Hill predicate",
        "3/C14",
    ),
    "C15": (
        "The library's floats (interval normalisation and zero sets, combine_preference_intervals, name-BT "
        "probability tables, slate-BT ballot-type tables, pref_interval_by_bloc of the name models) are compared to "
        "relative 1e-9 with exact-rational evaluations of the defining formulas over generated intervals (1-7 "
        "candidates, supports over nine orders of magnitude, zeros), cohesion in (0,1) and at the ends, 1-3 blocs; "
        "every table must be over exactly the distinct orderings and sum to 1.",
        "Relative tolerance 1e-9; the `candidates` attribute of a combined interval is not part of the statement.",
        "property-based testing (Hypothesis) against exact-rational closed forms",
        "3/C15",
    ),
    "C16": (
        "Spatial clause, exact for every generated stream: the returned ranking->count map must equal sorting the "
        "candidates by distance from each returned voter position (OneDimSpatial: positions observed through a "
        "recorder around numpy's normal sampler, plus single-peakedness on a common axis).  Distribution clauses: "
        "for parameter sets derived from VERIF_SEED with far-from-uniform intervals the harness enumerates the exact "
        "ballot law (PL, short-PL prefixes, cumulative multinomial, slate-PL sequential cohesion draws with "
        "renormalisation x PL fill-in, exact BT tables, slate-BT types x fill-in, IC uniform, AC slate-order "
        "marginals, Cambridge first-listed candidates and projected historical slate patterns) and tests 20 000+ "
        "generated ballots per set by chi-square at level 1e-9/tests; MCMC variants by a total-variation bound on a "
        "long run.",
        "Statistical decision at a stated level and power (a bias far below a percent in one cell is invisible); "
        "MCMC TV bound 0.06 on <= 6 states; OneDimSpatial's recorder is used only if the call pattern is recognised.",
        "exact metamorphic check for spatial models + chi-square goodness of fit / TV bound against harness-enumerated laws",
        "3/C16",
    ),
    "C17": (
        "Validity part (Hypothesis, seeded and scripted streams): every seat of RandomDictator / "
        "BoostedRandomDictator goes to a candidate inside the support of the current first-place law, ties in first "
        "place are resolved inside the tied set and recorded, recorded tallies equal the reduced profile's.  Law part: "
        "the harness enumerates the exact law of the elected sequence (successively reduced profiles; boosted mixture "
        "with 1/(c-1)) for parameter sets derived from VERIF_SEED (far-from-uniform shares, a first-place tie, m up to "
        "3) and tests thousands of seeded constructions by chi-square; random tiebreaks (Plurality boundary tie, STV "
        "elimination tie) are tested for uniformity the same way.",
        "Statistical decision at level 1e-9/tests per run; m never exceeds the number of candidates on a ballot (F12).",
        "property-based testing for the law's support + chi-square goodness of fit against enumerated sequence laws",
        "3/C17",
    ),
}

FUZZED = {"C01", "C02", "C03", "C04", "C05", "C06", "C07", "C08", "C10", "C11", "C12", "C13", "C14", "C15", "C18", "C19", "C20"}

PENDING_REASON = "check not built yet in this session; the design (DESIGN.md section 3) claims it and it will be registered once it is quiet on the unchanged tree and catches its mutants"


def main():
    props = [json.loads(l) for l in open(os.path.join(HERE, "properties.jsonl"))]
    checks = []
    na = []
    for p in props:
        pid = p["id"]
        if pid in CLAIMED:
            text, note, tech, ref = CLAIMED[pid]
            if pid in FUZZED:
                tech += "; thorough tier adds a coverage-guided campaign (atheris/libFuzzer driving the same Hypothesis strategy and oracle)"
            checks.append(
                {
                    "property_id": pid,
                    "quick_cmd": f"./check {pid} --tier quick",
                    "thorough_cmd": f"./check {pid} --tier thorough",
                    "evidence_file": f"/verif/evidence/{pid}.json",
                    "replay_cmd_template": f"./check {pid} --replay {{path}}",
                    "engine": "vk",
                    "level_claimed": {"category": "exploration", "text": text, "design_ref": ref},
                    "level_note": note,
                    "technique": tech,
                }
            )
        else:
            na.append({"property_id": pid, "reason": PENDING_REASON})
    man = {
        "version": 1,
        "setup_cmd": "sh ./setup.sh",
        "hooks": {
            "guard": "VOTEKIT_VERIF",
            "enable": "no source hooks: checks import /repo/src directly in a fresh interpreter "
            "(PYTHONPATH=/repo/src:/verif/shims:/verif) and observe through public API and "
            "harness-side wrappers; VOTEKIT_VERIF is reserved and unused",
            "baseline_off_cmd": "cd /repo && /venv/bin/python -m pytest -ra -q -p no:cacheprovider --timeout=900 --continue-on-collection-errors",
            "source_commits": [],
            "add_only": True,
        },
        "engines": [
            {
                "name": "vk",
                "path": "/verif/vk",
                "serves_properties": sorted(CLAIMED),
                "kind_free_text": "Hypothesis-driven property-based testing harness: plain-data "
                "cases, 16 seeded shards, scripted/seeded random layer, reference oracles, "
                "bounded-exhaustive sub-domains, chi-square goodness of fit for distribution laws; "
                "optional coverage-guided stage (atheris/libFuzzer over the same strategies, vk/fuzz.py)",
            }
        ],
        "checks": checks,
        "notes": "Tree under test is /repo/src (the pinned 155-test baseline imports the votekit "
        "wheel in /venv, not the tree). Regression suite for fix: commits: cd /repo && "
        "PYTHONPATH=/repo/src:/verif/shims /venv/bin/python -m pytest -q -p no:cacheprovider -n 8 tests "
        "(374 tests). Known/fixed findings: /verif/known_findings.json. Exit codes: 0 held, 1 VIOLATION, "
        "2 harness error.",
        "not_applicable": na,
    }
    with open(os.path.join(HERE, "MANIFEST.json"), "w") as f:
        json.dump(man, f, indent=1)
    print(f"claimed {len(checks)}, pending {len(na)}")


main()
