"""Stub of POT (python optimal transport), which is not installed in this sandbox and is not
in the offline wheelhouse.  votekit.metrics.distances imports it for earth_mover_dist only; no
listed property concerns that function."""


def emd(*a, **k):  # pragma: no cover
    raise NotImplementedError("POT is not available in the verification sandbox")
