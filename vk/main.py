"""CLI:  ./check C07 --tier quick|thorough   |   ./check C07 --replay FILE"""

from __future__ import annotations

import argparse
import importlib
import os
import sys


def guard_import():
    """Abort (exit 2, harness error) unless `votekit` is the tree under test."""
    src = os.path.realpath(os.environ.get("VK_SRC", "/repo/src"))
    import votekit

    where = os.path.realpath(votekit.__file__)
    if not where.startswith(src + os.sep):
        print(f"HARNESS-ERROR votekit imported from {where}, expected under {src}")
        sys.exit(2)


def main(argv=None):
    ap = argparse.ArgumentParser()
    ap.add_argument("prop")
    ap.add_argument("--tier", default=os.environ.get("VERIF_TIER", "quick"),
                    choices=["quick", "thorough"])
    ap.add_argument("--replay", default=None)
    args = ap.parse_args(argv)
    try:
        seed = int(os.environ.get("VERIF_SEED", "1"))
    except ValueError:
        seed = 1
    import warnings

    warnings.simplefilter("ignore")
    guard_import()
    from . import run

    mod = importlib.import_module(f"vk.props.{args.prop.lower()}")
    if args.replay:
        st = run.replay_file(mod, args.replay)
        if st.harness_errors:
            print("HARNESS-ERROR " + st.harness_errors[0]["trace"])
            return 2
        if st.fails:
            for case, fs, _ in st.fails:
                print(f"VIOLATION property={mod.ID} replay={os.path.abspath(args.replay)}")
                for f in fs:
                    print(f"  # {f['subcheck']} / {f['failure']}: {f['detail'][:600]}")
            return 1
        print(f"{mod.ID} replay ok ({args.replay}); known hits: {dict(st.known_hits)}")
        return 0
    return run.run_property(mod, args.tier, seed)


if __name__ == "__main__":
    sys.exit(main())
