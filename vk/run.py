"""Shard runner, evidence writer, violation/replay writer, exit codes (DESIGN 1.3, 1.7, 1.9).

A property module (vk/props/cNN.py) provides

    ID            "C11"
    RULE          text: how cases are generated and what makes one non-trivial
    BUDGET        {"quick": n_examples, "thorough": n_examples}
    strategy(tier)            -> Hypothesis strategy producing a JSON-able case
    check(case)               -> Outcome
    exhaustive(tier)          -> optional, iterable of cases enumerated completely
    extra(tier, seed, pool)   -> optional, (list[ExtraResult]) for parts that are not per-case
    ASSUMPTIONS               list[str]
"""

from __future__ import annotations

import collections
import json
import multiprocessing as mp
import os
import signal
import sys
import time
import traceback

from . import cases as C

HERE = os.path.dirname(os.path.dirname(os.path.abspath(__file__)))
NSHARDS = 16


class Fail:
    __slots__ = ("subcheck", "failure", "detail", "callee")

    def __init__(self, subcheck, failure, detail="", callee=None):
        self.subcheck = subcheck
        self.failure = failure
        self.detail = str(detail)[:2000]
        self.callee = callee

    def bucket(self):
        return (self.subcheck, self.failure, self.callee or "")

    def to_json(self):
        return {
            "subcheck": self.subcheck,
            "failure": self.failure,
            "callee": self.callee,
            "detail": self.detail,
        }


class Outcome:
    def __init__(self):
        self.fails: list[Fail] = []
        self.labels: list[str] = []
        self.nontrivial = False
        self.excluded = None  # name of a by-construction exclusion (known finding class)

    def fail(self, subcheck, failure, detail="", callee=None):
        self.fails.append(Fail(subcheck, failure, detail, callee))
        return self

    def label(self, *ls):
        self.labels.extend(ls)
        return self


class Watchdog(BaseException):
    pass


def _alarm(signum, frame):
    raise Watchdog()


def votekit_frame(exc) -> str | None:
    """Innermost traceback frame inside the votekit package, as 'file.py:function'."""
    src = os.environ.get("VK_SRC", "/repo/src")
    found = None
    tb = exc.__traceback__
    while tb is not None:
        fn = tb.tb_frame.f_code.co_filename
        if fn.startswith(src) or "/votekit/" in fn:
            found = f"{os.path.basename(fn)}:{tb.tb_frame.f_code.co_name}"
        tb = tb.tb_next
    return found


# ------------------------------------------------------------------------------------------
# known findings
# ------------------------------------------------------------------------------------------


def load_known(prop_id):
    path = os.path.join(HERE, "known_findings.json")
    if not os.path.exists(path):
        return []
    with open(path) as f:
        data = json.load(f)
    return [e for e in data.get("findings", []) if e["property"] == prop_id]


def match_known(entries, case, fail: Fail):
    from . import predicates

    for e in entries:
        if e.get("status") != "known":
            continue
        sig = e["signature"]
        if sig.get("subcheck") not in (None, fail.subcheck):
            continue
        if sig.get("failure") not in (None, fail.failure):
            continue
        if sig.get("callee") not in (None, fail.callee):
            continue
        pred = sig.get("predicate")
        if pred:
            try:
                if not getattr(predicates, pred)(case, fail):
                    continue
            except Exception:
                continue
        return e["id"]
    return None


# ------------------------------------------------------------------------------------------
# one shard
# ------------------------------------------------------------------------------------------


class Stats:
    def __init__(self):
        self.evals = 0
        self.nt = set()
        self.labels = collections.Counter()
        self.fails = []  # (case, [Fail json], shard or None)
        self.known_hits = collections.Counter()
        self.excluded = collections.Counter()
        self.samples = {}
        self.inconclusive = 0
        self.harness_errors = []
        self.invalid = 0
        self.shard = None

    def merge(self, o):
        self.evals += o.evals
        self.nt |= o.nt
        self.labels.update(o.labels)
        self.fails.extend(o.fails)
        self.known_hits.update(o.known_hits)
        self.excluded.update(o.excluded)
        for k, v in o.samples.items():
            self.samples.setdefault(k, v)
        self.inconclusive += o.inconclusive
        self.harness_errors.extend(o.harness_errors)
        self.invalid += o.invalid


def run_case(mod, case, stats: Stats, known):
    """Execute check(case) under the watchdog; classify; never raises."""
    stats.evals += 1
    signal.signal(signal.SIGALRM, _alarm)
    signal.alarm(int(os.environ.get("VK_CASE_TIMEOUT", "90")))
    try:
        out = mod.check(case)
    except Watchdog:
        stats.inconclusive += 1
        return None
    except Exception as exc:  # escaped the check: votekit frame -> failure, else harness error
        signal.alarm(0)
        fr = votekit_frame(exc)
        if fr is not None:
            out = Outcome()
            out.fail(
                "escaped_exception",
                type(exc).__name__,
                "".join(traceback.format_exception(exc))[-1500:],
                callee=fr,
            )
        else:
            stats.harness_errors.append(
                {"case": case, "trace": "".join(traceback.format_exception(exc))[-3000:]}
            )
            return None
    finally:
        signal.alarm(0)
    for lab in set(out.labels):
        stats.labels[lab] += 1
    if out.excluded:
        stats.excluded[out.excluded] += 1
    if out.nontrivial:
        h = C.case_hash(case)
        if h not in stats.nt:
            stats.nt.add(h)
            key = out.labels[0] if out.labels else "nt"
            if len(stats.samples) < 12 and key not in stats.samples:
                stats.samples[key] = case
    real = []
    for f in out.fails:
        kid = match_known(known, case, f)
        if kid:
            stats.known_hits[kid] += 1
        else:
            real.append(f)
    if real:
        stats.fails.append((case, [f.to_json() for f in real], stats.shard))
    return out


def _shard(args):
    modname, tier, seed, shard, n_examples = args
    import importlib

    mod = importlib.import_module(modname)
    known = load_known(mod.ID)
    stats = Stats()
    stats.shard = shard
    import hypothesis
    from hypothesis import HealthCheck, Phase, given, settings

    strat = mod.strategy(tier)

    def body(case):
        run_case(mod, case, stats, known)

    test = hypothesis.seed(seed * 1000 + shard)(
        settings(
            max_examples=n_examples,
            database=None,
            deadline=None,
            derandomize=False,
            report_multiple_bugs=False,
            phases=[Phase.generate],
            suppress_health_check=[HealthCheck.too_slow, HealthCheck.data_too_large],
        )(given(strat)(body))
    )
    try:
        test()
    except hypothesis.errors.FailedHealthCheck as exc:
        stats.harness_errors.append({"case": None, "trace": f"health check: {exc}"})
    except Exception as exc:
        stats.harness_errors.append(
            {"case": None, "trace": "".join(traceback.format_exception(exc))[-3000:]}
        )
    return stats


def _exh_shard(args):
    modname, tier, shard = args
    import importlib

    mod = importlib.import_module(modname)
    known = load_known(mod.ID)
    stats = Stats()
    for i, case in enumerate(mod.exhaustive(tier)):
        if i % NSHARDS == shard:
            run_case(mod, case, stats, known)
    return stats


# ------------------------------------------------------------------------------------------
# shrinking a failing bucket with Hypothesis (same seed -> same generation; collect-then-shrink)
# ------------------------------------------------------------------------------------------


def shrink(mod, tier, seed, shard, per, case, bucket, budget_s=60):
    """Re-run the shard that found `case` with the same seed, this time raising for failures in
    `bucket` only, so Hypothesis's shrinker minimises it.  The smallest failing case seen is
    tracked here, so a time-out / Flaky from Hypothesis still leaves a valid (smaller) case."""
    if shard is None:
        return case
    import hypothesis
    from hypothesis import HealthCheck, Phase, given, settings

    known = load_known(mod.ID)
    t0 = time.time()
    best = [case]

    class Hit(Exception):
        pass

    def body(c):
        if time.time() - t0 > budget_s:
            return
        st = Stats()
        run_case(mod, c, st, known)
        for _, fs, _s in st.fails:
            for f in fs:
                if (f["subcheck"], f["failure"], f["callee"] or "") == bucket:
                    if len(C.canon(c)) <= len(C.canon(best[0])):
                        best[0] = c
                    raise Hit()

    test = hypothesis.seed(seed * 1000 + shard)(
        settings(
            max_examples=per,
            database=None,
            deadline=None,
            report_multiple_bugs=False,
            phases=[Phase.generate, Phase.shrink],
            suppress_health_check=list(HealthCheck),
        )(given(mod.strategy(tier))(body))
    )
    try:
        test()
    except BaseException:
        pass
    return best[0]


# ------------------------------------------------------------------------------------------
# main entry
# ------------------------------------------------------------------------------------------


def write_replay(prop_id, case, fails):
    d = os.path.join(os.environ.get("VK_REPLAY_DIR") or os.path.join(HERE, "replays"), prop_id)
    os.makedirs(d, exist_ok=True)
    h = C.case_hash(case)[:12]
    path = os.path.join(d, f"violation-{h}.json")
    with open(path, "w") as f:
        json.dump({"property": prop_id, "case": case, "fails": fails}, f, indent=1, default=str)
    return path


def replay_file(mod, path):
    with open(path) as f:
        data = json.load(f)
    case = data["case"] if "case" in data else data
    known = load_known(mod.ID)
    stats = Stats()
    run_case(mod, case, stats, known)
    return stats


def run_property(mod, tier, seed):
    t0 = time.time()
    prop_id = mod.ID
    known = load_known(prop_id)
    total = Stats()
    lines = []
    violations = []  # (case, fails, origin)

    # 1. known-finding entries and saved regression inputs are replayed first --------------
    for e in load_known(prop_id):
        for rep in e.get("repro", []):
            st = Stats()
            # for replaying an entry we must not suppress it: evaluate with no known list
            out_stats = Stats()
            run_case(mod, rep, out_stats, [])
            total.evals += 1
            failing = bool(out_stats.fails)
            if e["status"] == "known":
                # does it fail the way the entry says?
                hit = False
                for _, fs, _s in out_stats.fails:
                    for f in fs:
                        if match_known([e], rep, Fail(f["subcheck"], f["failure"], f["detail"], f["callee"])):
                            hit = True
                if hit:
                    lines.append(f"KNOWN-FINDING: property={prop_id} {e['id']}: {e['text']}")
                # failures of this repro that do *not* match its own entry are violations
                for case_, fs, _s in out_stats.fails:
                    other = [
                        f for f in fs
                        if not match_known(known, rep, Fail(f["subcheck"], f["failure"], f["detail"], f["callee"]))
                    ]
                    if other:
                        violations.append((rep, other, f"known-entry {e['id']}"))
            elif e["status"] == "fixed" and failing:
                for case_, fs, _s in out_stats.fails:
                    violations.append((rep, fs, f"regression of fixed finding {e['id']}"))
            total.harness_errors.extend(out_stats.harness_errors)
    rdir = os.path.join(HERE, "replays", prop_id)
    if os.path.isdir(rdir):
        for fn in sorted(os.listdir(rdir)):
            if fn.startswith("regress-") and fn.endswith(".json"):
                st = replay_file(mod, os.path.join(rdir, fn))
                total.merge(st)

    # 2. generated search, 16 shards ---------------------------------------------------------
    n = int(mod.BUDGET[tier] * float(os.environ.get("VK_SCALE", "1")))
    per = max(1, n // NSHARDS)
    ctx = mp.get_context("fork")
    with ctx.Pool(NSHARDS) as pool:
        if n > 0:
            for st in pool.imap_unordered(
                _shard, [(mod.__name__, tier, seed, i, per) for i in range(NSHARDS)]
            ):
                total.merge(st)
        exhaustive_done = False
        if hasattr(mod, "exhaustive") and mod.exhaustive(tier) is not None:
            for st in pool.imap_unordered(
                _exh_shard, [(mod.__name__, tier, i) for i in range(NSHARDS)]
            ):
                total.merge(st)
            exhaustive_done = True
        extra_cov = {}
        if hasattr(mod, "extra"):
            res = mod.extra(tier, seed, pool)
            extra_cov = res.get("coverage", {})
            total.evals += res.get("evaluations", 0)
            for h in res.get("nontrivial_hashes", []):
                total.nt.add(h)
            for case_, fs in res.get("fails", []):
                real = [
                    f for f in fs
                    if not match_known(known, case_, Fail(f["subcheck"], f["failure"], f.get("detail", ""), f.get("callee")))
                ]
                if real:
                    total.fails.append((case_, real, None))
            for s in res.get("samples", []):
                total.samples.setdefault(f"extra{len(total.samples)}", s)
            total.harness_errors.extend(res.get("harness_errors", []))

    # 2b. coverage-guided stage (opt-in per module, see vk/fuzz.py); the pool is closed first so the
    # sixteen fuzz workers have the cores to themselves
    if getattr(mod, "FUZZ", {}).get(tier):
        from . import fuzz

        res = fuzz.campaign(mod, tier, seed)
        if res:
            extra_cov.update(res.get("coverage", {}))
            total.evals += res.get("evaluations", 0)
            for h in res.get("nontrivial_hashes", []):
                total.nt.add(h)
            for case_, fs in res.get("fails", []):
                total.fails.append((case_, fs, None))
            for s_ in res.get("samples", []):
                total.samples.setdefault(f"fuzz{len(total.samples)}", s_)
            total.harness_errors.extend(res.get("harness_errors", []))

    # 3. verdicts ----------------------------------------------------------------------------
    buckets = {}
    for case, fs, sh in total.fails:
        for f in fs:
            b = (f["subcheck"], f["failure"], f["callee"] or "")
            cur = buckets.get(b)
            if cur is None or len(C.canon(case)) < len(C.canon(cur[0])):
                buckets[b] = (case, [f], sh)
    do_shrink = os.environ.get("VK_SHRINK", "1") == "1"
    for i, (b, (case, fs, sh)) in enumerate(sorted(buckets.items(), key=lambda kv: str(kv[0]))):
        small = case
        if do_shrink and i < 4:
            small = shrink(mod, tier, seed, sh, per, case, b,
                           budget_s=15 if tier == "quick" else 90)
        violations.append((small, fs, "search"))

    exit_code = 0
    for case, fs, origin in violations:
        path = write_replay(prop_id, case, fs)
        lines.append(f"VIOLATION property={prop_id} replay={path}")
        lines.append(f"  # {origin}: {fs[0]['subcheck']} / {fs[0]['failure']}: {fs[0]['detail'][:300]}")
        exit_code = 1
    if total.harness_errors:
        for he in total.harness_errors[:3]:
            lines.append("HARNESS-ERROR " + he["trace"][-1500:])
            if he.get("case") is not None:
                lines.append("  case=" + C.canon(he["case"])[:1000])
        if exit_code == 0:
            exit_code = 2

    # 4. evidence ----------------------------------------------------------------------------
    cov = {
        "evaluations": total.evals,
        "distinct_nontrivial": len(total.nt),
        "rule": mod.RULE,
        "samples": list(total.samples.values())[:8],
        "labels": dict(total.labels.most_common()),
        "known_finding_hits": dict(total.known_hits),
        "excluded_by_construction": dict(total.excluded),
        "inconclusive": total.inconclusive,
        "harness_errors": len(total.harness_errors),
        "shards": NSHARDS,
        "examples_per_shard": per,
        "shard_seeds": [seed * 1000 + i for i in range(NSHARDS)],
        "failure_buckets": [list(b) for b in buckets],
    }
    if hasattr(mod, "exhaustive"):
        cov["exhaustive_subdomain_run"] = exhaustive_done
    cov.update(extra_cov)
    ev = {
        "property_id": prop_id,
        "tier": tier,
        "seed": seed,
        "level": "exploration",
        "coverage": cov,
        "assumptions": list(getattr(mod, "ASSUMPTIONS", [])),
        "wall_s": round(time.time() - t0, 2),
        "violations": len(violations),
    }
    evdir = os.environ.get("VK_EVIDENCE_DIR") or os.path.join(HERE, "evidence")
    os.makedirs(evdir, exist_ok=True)
    with open(os.path.join(evdir, f"{prop_id}.json"), "w") as f:
        json.dump(ev, f, indent=1, default=str)
    for ln in lines:
        print(ln)
    print(
        f"{prop_id} tier={tier} seed={seed} evaluations={total.evals} "
        f"distinct_nontrivial={len(total.nt)} violations={len(violations)} "
        f"known_hits={sum(total.known_hits.values())} inconclusive={total.inconclusive} "
        f"wall={ev['wall_s']}s"
    )
    sys.stdout.flush()
    return exit_code
