"""Seeded / scripted / recording random layer (DESIGN 1.4).

VoteKit draws from the global ``random`` module and from ``numpy.random`` (legacy global state
and, in two places, an unseeded ``np.random.default_rng()``).  ``owned(...)`` is a context
manager that owns all of it for the duration of one call into VoteKit:

* seeded mode   - ``random.seed(s)``, ``np.random.seed(s)``, ``default_rng`` seeded from ``s``.
* scripted mode - the primitives VoteKit's *election* code uses take their answers from a list
  of integers (the script, part of the generated case); when the script runs out they fall
  back to a ``random.Random(seed)`` stream.  Hypothesis therefore explores and shrinks the
  outcome of every random choice like any other input.
* recording     - in both modes every call is logged as (primitive, population size, k).

Soundness rule: scripts only steer exploration, verdicts are taken on API-observable results.
"""

from __future__ import annotations

import contextlib
import io
import random as _random
import numpy as _np

_ORIG = {
    "sample": _random.sample,
    "choices": _random.choices,
    "uniform": _random.uniform,
    "random": _random.random,
    "shuffle": _random.shuffle,
    "np_choice": _np.random.choice,
    "np_shuffle": _np.random.shuffle,
    "np_default_rng": _np.random.default_rng,
}


class Layer:
    def __init__(self, seed: int = 0, script=None, record_only=False):
        self.seed = int(seed)
        self.script = list(script) if script is not None else None
        self.pos = 0
        self.log: list[tuple] = []
        self.fallback = _random.Random(self.seed ^ 0x5EED)
        self.record_only = record_only

    # -- script consumption ---------------------------------------------------------------
    def _next_index(self, n: int) -> int:
        """An index in range(n): from the script while it lasts, then from the fallback."""
        if self.script is not None and self.pos < len(self.script):
            v = self.script[self.pos]
            self.pos += 1
            return int(v) % n
        return self.fallback.randrange(n)

    def _next_unit(self) -> float:
        """A float in [0,1): script ints are read as v/1000 (mod 1)."""
        if self.script is not None and self.pos < len(self.script):
            v = self.script[self.pos]
            self.pos += 1
            return (int(v) % 1000) / 1000.0
        return self.fallback.random()

    @property
    def draws(self) -> int:
        return len(self.log)

    # -- scripted primitives ----------------------------------------------------------------
    def sample(self, population, k, *, counts=None):
        pop = list(population)
        self.log.append(("random.sample", len(pop), k))
        if k > len(pop) or k < 0:
            raise ValueError("Sample larger than population or is negative")
        out = []
        idx = list(range(len(pop)))
        for _ in range(k):
            j = self._next_index(len(idx))
            out.append(pop[idx.pop(j)])
        return out

    def choices(self, population, weights=None, *, cum_weights=None, k=1):
        pop = list(population)
        self.log.append(("random.choices", len(pop), k))
        out = []
        if weights is None and cum_weights is None:
            for _ in range(k):
                out.append(pop[self._next_index(len(pop))])
            return out
        if weights is not None:
            w = [float(x) for x in weights]
        else:
            w = [float(cum_weights[0])] + [
                float(cum_weights[i] - cum_weights[i - 1]) for i in range(1, len(pop))
            ]
        support = [i for i, x in enumerate(w) if x > 0]
        if not support:
            raise ValueError("Total of weights must be greater than zero")
        for _ in range(k):
            # scripted: any positive-weight element may be chosen
            out.append(pop[support[self._next_index(len(support))]])
        return out

    def uniform(self, a, b):
        self.log.append(("random.uniform", 0, 1))
        return a + (b - a) * self._next_unit()

    def random(self):
        self.log.append(("random.random", 0, 1))
        return self._next_unit()

    def shuffle(self, x):
        self.log.append(("random.shuffle", len(x), len(x)))
        items = list(x)
        for i in range(len(items)):
            j = self._next_index(len(items))
            x[i] = items.pop(j)

    def np_choice(self, a, size=None, replace=True, p=None):
        pop = list(range(a)) if isinstance(a, (int, _np.integer)) else list(a)
        k = 1 if size is None else int(_np.prod(size))
        self.log.append(("np.random.choice", len(pop), k))
        if p is not None:
            support = [i for i, x in enumerate(p) if x > 0]
        else:
            support = list(range(len(pop)))
        out = []
        for _ in range(k):
            if not support:
                raise ValueError("Fewer non-zero entries in p than size")
            j = self._next_index(len(support))
            i = support[j]
            if not replace:
                support.pop(j)
            out.append(pop[i])
        if size is None:
            v = out[0]
            return _np.str_(v) if isinstance(v, str) else v
        return _np.array(out)

    def np_shuffle(self, x):
        self.log.append(("np.random.shuffle", len(x), len(x)))
        items = list(x)
        for i in range(len(items)):
            j = self._next_index(len(items))
            x[i] = items.pop(j)


def _recording(layer: Layer, name: str, fn):
    def wrapper(*a, **k):
        n = 0
        try:
            if a:
                n = a[0] if isinstance(a[0], int) else len(a[0])
        except Exception:
            n = 0
        layer.log.append((name, n, k.get("k", k.get("size", 1))))
        return fn(*a, **k)

    return wrapper


@contextlib.contextmanager
def owned(seed: int = 0, script=None, capture=True):
    """Own all randomness VoteKit can reach, capture its stdout.  Yields the Layer."""
    layer = Layer(seed, script)
    st_py = _random.getstate()
    st_np = _np.random.get_state()
    _random.seed(layer.seed)
    _np.random.seed(layer.seed % (2**32))
    ctr = [0]

    def seeded_default_rng(s=None):
        if s is None:
            ctr[0] += 1
            return _ORIG["np_default_rng"](layer.seed * 7919 + ctr[0])
        return _ORIG["np_default_rng"](s)

    patches = {}
    if script is not None:
        patches = {
            (_random, "sample"): layer.sample,
            (_random, "choices"): layer.choices,
            (_random, "uniform"): layer.uniform,
            (_random, "random"): layer.random,
            (_random, "shuffle"): layer.shuffle,
            (_np.random, "choice"): layer.np_choice,
            (_np.random, "shuffle"): layer.np_shuffle,
        }
    else:
        patches = {
            (_random, "sample"): _recording(layer, "random.sample", _random.sample),
            (_random, "choices"): _recording(layer, "random.choices", _random.choices),
            (_random, "uniform"): _recording(layer, "random.uniform", _random.uniform),
            (_random, "random"): _recording(layer, "random.random", _random.random),
            (_random, "shuffle"): _recording(layer, "random.shuffle", _random.shuffle),
            (_np.random, "choice"): _recording(layer, "np.random.choice", _np.random.choice),
            (_np.random, "shuffle"): _recording(layer, "np.random.shuffle", _np.random.shuffle),
        }
    patches[(_np.random, "default_rng")] = seeded_default_rng
    saved = {}
    buf = io.StringIO()
    try:
        for (mod, name), fn in patches.items():
            saved[(mod, name)] = getattr(mod, name)
            setattr(mod, name, fn)
        if capture:
            with contextlib.redirect_stdout(buf):
                yield layer
        else:
            yield layer
    finally:
        for (mod, name), fn in saved.items():
            setattr(mod, name, fn)
        _random.setstate(st_py)
        _np.random.set_state(st_np)
        layer.stdout = buf.getvalue()
