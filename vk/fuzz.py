"""Coverage-guided stage (atheris / libFuzzer) over the SAME structured generator and oracle.

A property module opts in with `FUZZ = {"thorough": runs_per_worker, ...}`.  Each worker is a fresh
interpreter in which votekit is imported under atheris' bytecode instrumentation; libFuzzer's byte
string is decoded by Hypothesis (`fuzz_one_input`) through the module's `strategy(tier)`, so every
input is one the property quantifies over, and the verdict is the module's `check(case)` -- the
fuzzer contributes only the search order (edge coverage inside votekit).  Failures are collected,
not raised, so one shallow finding does not end the campaign.  libFuzzer's `-seed` pins a campaign
only approximately; the saved case JSON is the reproducible unit.

If atheris is not importable (setup.sh installs it from the offline wheelhouse into .deps) the
stage reports `skipped` in the evidence and decides nothing.
"""

from __future__ import annotations

import json
import os
import shutil
import subprocess
import sys
import tempfile

HERE = os.path.dirname(os.path.dirname(os.path.abspath(__file__)))
DEPS = os.path.join(HERE, ".deps")


def available():
    return os.path.isdir(os.path.join(DEPS, "atheris"))


def campaign(mod, tier, seed, workers=16):
    runs = int(getattr(mod, "FUZZ", {}).get(tier, 0) * float(os.environ.get("VK_SCALE", "1")))
    if runs <= 0:
        return None
    if not available():
        return {"coverage": {"coverage_guided": {"status": "skipped: atheris not installed (run setup.sh)"}}}
    tmp = tempfile.mkdtemp(prefix="vk-fuzz-")
    procs = []
    try:
        for w in range(workers):
            out = os.path.join(tmp, f"w{w}.json")
            corpus = os.path.join(tmp, f"corpus{w}")
            os.makedirs(corpus)
            env = dict(os.environ)
            env["PYTHONPATH"] = env.get("PYTHONPATH", "") + os.pathsep + DEPS
            cmd = [sys.executable, "-m", "vk.fuzz", mod.__name__, tier, str(seed * 1000 + 500 + w), str(runs), out, corpus]
            # libFuzzer's progress lines go to a file, not a pipe: a full pipe would stall the worker
            errf = open(os.path.join(tmp, f"w{w}.err"), "wb")
            procs.append((w, out, subprocess.Popen(cmd, env=env, stdout=subprocess.DEVNULL, stderr=errf, cwd=HERE), errf))
        res = {"evaluations": 0, "nontrivial_hashes": [], "fails": [], "samples": [], "harness_errors": []}
        execs = 0
        feats = []
        for w, out, p, errf in procs:
            p.wait()
            errf.close()
            err = open(errf.name, "rb").read()[-200000:]
            if not os.path.exists(out):
                res["harness_errors"].append({"case": None, "trace": f"fuzz worker {w} wrote nothing (rc={p.returncode}): " + err.decode(errors="replace")[-1500:]})
                continue
            d = json.load(open(out))
            res["evaluations"] += d["evals"]
            execs += d["execs"]
            res["nontrivial_hashes"].extend(d["nt"])
            res["fails"].extend((c, fs) for c, fs in d["fails"])
            res["harness_errors"].extend(d["harness_errors"])
            if d["sample"] is not None and len(res["samples"]) < 2:
                res["samples"].append(d["sample"])
            for line in err.decode(errors="replace").splitlines():
                if "DONE" in line and "cov:" in line:
                    feats.append(line.split("DONE", 1)[1].strip()[:80])
        res["coverage"] = {"coverage_guided": {
            "status": "ran", "engine": "atheris/libFuzzer over hypothesis.fuzz_one_input(strategy)",
            "workers": workers, "runs_per_worker": runs, "fuzzer_executions": execs,
            "cases_evaluated": res["evaluations"], "libfuzzer_final": feats[:4],
            "worker_seeds": [seed * 1000 + 500 + w for w in range(workers)],
        }}
        return res
    finally:
        shutil.rmtree(tmp, ignore_errors=True)


def _worker(argv):
    modname, tier, seed, runs, out, corpus = argv
    seed, runs = int(seed), int(runs)
    import atheris

    with atheris.instrument_imports(include=["votekit"]):
        import votekit  # noqa: F401
        import votekit.ballot_generator  # noqa: F401
        import votekit.cleaning  # noqa: F401
        import votekit.cvr_loaders  # noqa: F401
        import votekit.elections  # noqa: F401
        import votekit.graphs  # noqa: F401
        import votekit.utils  # noqa: F401
        try:
            import votekit.metrics  # noqa: F401
        except Exception:
            pass
    import importlib
    import warnings

    warnings.simplefilter("ignore")
    from hypothesis import HealthCheck, given, settings

    from . import run as R

    mod = importlib.import_module(modname)
    known = R.load_known(mod.ID)
    stats = R.Stats()
    state = {"execs": 0}

    def dump():
        sample = next(iter(stats.samples.values()), None)
        tmpf = out + ".tmp"
        with open(tmpf, "w") as f:
            json.dump({"evals": stats.evals, "execs": state["execs"], "nt": sorted(stats.nt),
                       "fails": [(c, fs) for c, fs, _ in stats.fails][:20], "sample": sample,
                       "harness_errors": stats.harness_errors[:3]}, f, default=str)
        os.replace(tmpf, out)

    @settings(database=None, deadline=None, suppress_health_check=list(HealthCheck))
    @given(mod.strategy(tier))
    def body(case):
        R.run_case(mod, case, stats, known)

    fuzz_one = body.hypothesis.fuzz_one_input

    def target(data):
        state["execs"] += 1
        try:
            fuzz_one(data)
        except Exception as exc:  # run_case never raises; anything here is the harness
            import traceback

            stats.harness_errors.append({"case": None, "trace": "".join(traceback.format_exception(exc))[-2000:]})
        if state["execs"] % 250 == 0 or state["execs"] >= runs - 2:
            dump()

    dump()
    atheris.Setup([sys.argv[0], f"-runs={runs}", f"-seed={seed}", "-max_len=4096", "-len_control=0", "-timeout=120", corpus], target)
    atheris.Fuzz()


if __name__ == "__main__":
    _worker(sys.argv[1:])
