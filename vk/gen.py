"""Plain-data parameter sets for VoteKit's ballot generators <-> generator objects."""

from __future__ import annotations

from fractions import Fraction

from hypothesis import strategies as st

from . import cases as C

SLATE_MODELS = ["slate_PlackettLuce", "slate_BradleyTerry", "AlternatingCrossover", "CambridgeSampler"]
NAME_MODELS = ["name_PlackettLuce", "name_BradleyTerry", "name_Cumulative", "short_name_PlackettLuce"]


def fl(x):
    return float(C.frac(x))


def build_kwargs(params):
    """params: {"slates": {bloc: [cands]}, "prop": {bloc: num}, "cohesion": {bloc: {bloc: num}},
    "intervals": {bloc: {bloc: {cand: num}}}} -> kwargs for a BallotGenerator subclass."""
    from votekit.pref_interval import PreferenceInterval

    slates = params["slates"]
    kw = {
        "slate_to_candidates": {b: list(cs) for b, cs in slates.items()},
        "bloc_voter_prop": {b: fl(v) for b, v in params["prop"].items()},
        "cohesion_parameters": {b: {b2: fl(v) for b2, v in d.items()} for b, d in params["cohesion"].items()},
        "pref_intervals_by_bloc": {
            b: {b2: PreferenceInterval({c: fl(v) for c, v in iv.items()}) for b2, iv in d.items()}
            for b, d in params["intervals"].items()
        },
    }
    return kw


def make(model, params, **extra):
    import votekit.ballot_generator as bg

    kw = build_kwargs(params)
    cls = getattr(bg, model)
    if model in NAME_MODELS:
        kw["candidates"] = [c for cs in params["slates"].values() for c in cs]
        del kw["slate_to_candidates"]
    kw.update(extra)
    return cls(**kw)


@st.composite
def simplex(draw, keys, allow_zero=True, denom=None):
    """Non-negative rationals over `keys` summing to exactly 1 (ints / their sum)."""
    n = len(keys)
    lo = 0 if allow_zero else 1
    parts = draw(st.lists(st.integers(lo, 9), min_size=n, max_size=n))
    if sum(parts) == 0:
        parts[draw(st.integers(0, n - 1))] = 1
    tot = sum(parts)
    return {k: C.enc(Fraction(p, tot)) for k, p in zip(keys, parts)}


@st.composite
def supports(draw, cands, allow_zero=True):
    """Interval supports spanning several orders of magnitude, exact zeros included."""
    out = {}
    for c in cands:
        kind = draw(st.sampled_from(["mid", "mid", "mid", "tiny", "big", "zero"]))
        if kind == "zero" and allow_zero:
            out[c] = 0
        elif kind == "tiny":
            out[c] = C.enc(Fraction(draw(st.integers(1, 9)), 10 ** draw(st.integers(3, 6))))
        elif kind == "big":
            out[c] = draw(st.integers(10, 1000))
        else:
            out[c] = C.enc(Fraction(draw(st.integers(1, 9)), draw(st.integers(1, 9))))
    if all(C.frac(v) == 0 for v in out.values()):
        out[cands[0]] = 1
    return out


@st.composite
def params(draw, n_blocs=None, max_slate=3, allow_zero=True, min_slate=1, shuffle_inner=True):
    nb = n_blocs or draw(st.integers(1, 3))
    blocs = ["W", "C", "H"][:nb]
    slates = {}
    for b in blocs:
        k = draw(st.integers(min_slate, max_slate))
        slates[b] = [f"{b}{i + 1}" for i in range(k)]
    prop = draw(simplex(blocs, allow_zero=allow_zero))
    cohesion = {b: draw(simplex(blocs, allow_zero=allow_zero)) for b in blocs}
    intervals = {b: {b2: draw(supports(slates[b2], allow_zero=allow_zero)) for b2 in blocs} for b in blocs}
    if shuffle_inner and nb > 1:
        # the inner dictionaries are keyed by bloc name: writing them in different key orders is
        # the same parameter set
        for b in blocs:
            o1 = draw(st.permutations(blocs))
            o2 = draw(st.permutations(blocs))
            cohesion[b] = {k: cohesion[b][k] for k in o1}
            intervals[b] = {k: intervals[b][k] for k in o2}
        # ... and so is listing the blocs themselves in a different order in each of the four
        # top-level dictionaries (every constructor compares the key sets, not the orders)
        slates = {k: slates[k] for k in draw(st.permutations(blocs))}
        prop = {k: prop[k] for k in draw(st.permutations(blocs))}
        cohesion = {k: cohesion[k] for k in draw(st.permutations(blocs))}
        intervals = {k: intervals[k] for k in draw(st.permutations(blocs))}
    return {"slates": slates, "prop": prop, "cohesion": cohesion, "intervals": intervals}


def decoy(params):
    """The same blocs, slates and candidate names with different numbers (reversed increasing
    supports; for two blocs the proportions and cohesion rows swapped).  Built and dropped between
    constructing a generator and using it: a generator's output is a function of its own
    parameters, whatever else has been constructed in the process."""
    blocs = list(params["slates"])
    dec = dict(params)
    dec["intervals"] = {b: {b2: {c: (i + 2) ** 2 for i, c in enumerate(reversed(list(iv)))} for b2, iv in d.items()}
                        for b, d in params["intervals"].items()}
    if len(blocs) == 2:
        x, y = blocs
        dec["prop"] = {x: params["prop"][y], y: params["prop"][x]}
        dec["cohesion"] = {x: {x: params["cohesion"][y][y], y: params["cohesion"][y][x]},
                           y: {y: params["cohesion"][x][x], x: params["cohesion"][x][y]}}
    return dec
