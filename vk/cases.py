"""Plain-data case model (JSON-able) <-> VoteKit objects (DESIGN 1.2)."""

from __future__ import annotations

import hashlib
import json
from fractions import Fraction


def frac(x) -> Fraction:
    """Parse the JSON encodings of numbers used in cases: int, "p/q", {"f": float}."""
    if isinstance(x, Fraction):
        return x
    if isinstance(x, bool):
        raise TypeError("bool is not a number here")
    if isinstance(x, int):
        return Fraction(x)
    if isinstance(x, str):
        return Fraction(x)
    if isinstance(x, float):
        return Fraction(x)
    if isinstance(x, dict) and "f" in x:
        return Fraction(float(x["f"]))
    raise TypeError(f"cannot read number {x!r}")


def num(x):
    """The Python value a case number stands for *as passed to VoteKit* (int/Fraction/float)."""
    if isinstance(x, dict) and "f" in x:
        return float(x["f"])
    if isinstance(x, int):
        return x
    if isinstance(x, str):
        f = Fraction(x)
        return f
    if isinstance(x, float):
        return x
    raise TypeError(f"cannot read number {x!r}")


def enc(fr) -> object:
    """Encode a Fraction/int for JSON."""
    fr = Fraction(fr)
    if fr.denominator == 1:
        return int(fr.numerator)
    return f"{fr.numerator}/{fr.denominator}"


def ranking_of(r):
    """[[a],[b,c]] -> tuple of frozensets; None stays None."""
    if r is None:
        return None
    return tuple(frozenset(pos) for pos in r)


def mk_ballot(d):
    from votekit.ballot import Ballot

    kw = {}
    if d.get("r") is not None:
        kw["ranking"] = ranking_of(d["r"])
    if "w" in d:
        kw["weight"] = num(d["w"])
    if d.get("s") is not None:
        kw["scores"] = {c: num(v) for c, v in d["s"].items()}
    if d.get("id") is not None:
        kw["id"] = d["id"]
    if d.get("v") is not None:
        kw["voter_set"] = set(d["v"])
    return Ballot(**kw)


def mk_profile(ballots, candidates=None):
    from votekit.pref_profile import PreferenceProfile

    bs = tuple(mk_ballot(b) for b in ballots)
    if candidates is None:
        return PreferenceProfile(ballots=bs)
    return PreferenceProfile(ballots=bs, candidates=tuple(candidates))


def skey(c):
    """Sort key for candidate names: by string value (np.str_ == str), None last."""
    return (1, "") if c is None else (0, str(c))


def ranking_key(ranking):
    """Canonical hashable/sortable form of a votekit ranking (tuple of frozensets)."""
    if not ranking:
        return ()
    return tuple(tuple(sorted((None if c is None else str(c) for c in s), key=skey)) for s in ranking)


def scores_key(scores):
    if not scores:
        return ()
    return tuple(sorted((c, Fraction(v)) for c, v in scores.items()))


def canon(case) -> str:
    return json.dumps(case, sort_keys=True, separators=(",", ":"), default=str)


def case_hash(case) -> str:
    return hashlib.sha1(canon(case).encode("utf8")).hexdigest()


def groups(t):
    """tuple of frozensets -> list of sorted lists, dropping empty groups (JSON-able)."""
    return [sorted(s, key=skey) for s in t if len(s) > 0]


def flat(t):
    return [c for s in t for c in s]
