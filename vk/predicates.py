"""Predicates over (case, fail) used by known_findings.json signatures (DESIGN 1.7).
Each takes the plain-data case and the Fail and says whether the input lies in the class of
inputs the finding is about.  Evaluated on the *input*, never on the exception text alone."""

from fractions import Fraction as _F

from .cases import frac as _frac


def _total(case):
    return sum((_frac(b["w"]) for b in case["ballots"]), _F(0))


def overfull_possible(case, fail):
    """Simultaneous election rounds can meet more quota-reachers than unfilled seats only with
    the Hare quota or with SequentialRCV's full-weight transfers (under Droop with a fractional
    transfer the tallies cannot support it)."""
    rule = case.get("rule", "STV")
    sim = case.get("simultaneous", case.get("cfg", {}).get("simultaneous", True))
    quota = case.get("quota", case.get("cfg", {}).get("quota", "droop"))
    return bool(sim) and (quota == "hare" or rule == "SequentialRCV")


def hare_threshold_zero(case, fail):
    quota = case.get("quota", case.get("cfg", {}).get("quota", "droop"))
    m = case.get("m", case.get("cfg", {}).get("m", 1))
    return quota == "hare" and _total(case) < m
