"""Predicates over (case, fail) used by known_findings.json signatures (DESIGN 1.7).
Each takes the plain-data case and the Fail and says whether the input lies in the class of
inputs the finding is about.  Evaluated on the *input*, never on the exception text alone."""

from fractions import Fraction as _F

from .cases import frac as _frac


def _total(case):
    return sum((_frac(b["w"]) for b in case["ballots"]), _F(0))


def overfull_possible(case, fail):
    """Simultaneous election rounds can meet more quota-reachers than unfilled seats only with
    the Hare quota or with SequentialRCV's full-weight transfers (under Droop with a fractional
    transfer the tallies cannot support it)."""
    rule = case.get("rule", "STV")
    if rule == "Alaska":
        return bool(case["cfg"].get("simultaneous", True)) and case["cfg"].get("quota", "droop") == "hare"
    sim = case.get("simultaneous", case.get("cfg", {}).get("simultaneous", True))
    quota = case.get("quota", case.get("cfg", {}).get("quota", "droop"))
    return bool(sim) and (quota == "hare" or rule == "SequentialRCV")


def hare_threshold_zero(case, fail):
    quota = case.get("quota", case.get("cfg", {}).get("quota", "droop"))
    m = case.get("m", case.get("cfg", {}).get("m", 1))
    if case.get("rule") == "Alaska":
        # the stage total is read from the records by the check (subcheck name); here: Hare only
        return quota == "hare"
    return quota == "hare" and _total(case) < m


def _mentioned(case):
    return {c for b in case["ballots"] for p in (b.get("r") or []) for c in p}


def dictator_support_exhausted(case, fail):
    """RandomDictator / BoostedRandomDictator: every round elects a candidate some ballot lists,
    so all ballots are exhausted before m seats are filled iff m exceeds the number of
    candidates that appear on any ballot."""
    return case.get("rule") in ("RandomDictator", "BoostedRandomDictator") and \
        case["cfg"]["m"] > len(_mentioned(case))


def veto_supported_le_m(case, fail):
    """PluralityVeto: candidates with first-place support number <= m < n."""
    if case.get("rule") != "PluralityVeto":
        return False
    first = {c for b in case["ballots"] for c in b["r"][0]}
    m, n = case["cfg"]["m"], len(case["cands"])
    return len(first) <= m < n


def is_alaska(case, fail):
    return case.get("rule") == "Alaska" or case.get("comp") == "Alaska"


def fewer_ballots_than_voter_types(case, fail):
    """Generators: N smaller than the number of blocs (or of the 2 x blocs bloc/crossover voter
    types of AlternatingCrossover / CambridgeSampler)."""
    if "params" not in case or "N" not in case:
        return False
    nb = len(case["params"]["slates"])
    types = nb * (2 if case.get("model") in ("AlternatingCrossover", "CambridgeSampler") else 1)
    return case["N"] < types
