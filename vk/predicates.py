"""Predicates over (case, fail) used by known_findings.json signatures (DESIGN 1.7).
Each takes the plain-data case and the Fail and says whether the input lies in the class of
inputs the finding is about.  Evaluated on the *input*, never on the exception text alone."""
