"""Reference pairwise comparison and dominating tiers, from the statement of C06.

Margins from the definition (a listed candidate beats an unlisted one, two unlisted candidates
split evenly, i.e. contribute 0 to the margin); tiers by brute force over subsets (no graph
library): every S whose members all strictly beat every non-member is a dominating set; the
dominating sets form a chain and consecutive differences are the tiers."""

from __future__ import annotations

import itertools
from fractions import Fraction

from ..cases import frac


def margins(ballots, cands):
    """(a, b) -> weight ranking a above b minus weight ranking b above a (untied ballots)."""
    m = {(a, b): Fraction(0) for a in cands for b in cands if a != b}
    for bl in ballots:
        order = [p[0] for p in bl["r"]]
        pos = {c: i for i, c in enumerate(order)}
        w = frac(bl["w"])
        for a, b in itertools.combinations(cands, 2):
            pa, pb = pos.get(a), pos.get(b)
            if pa is None and pb is None:
                continue
            if pb is None or (pa is not None and pa < pb):
                m[(a, b)] += w
                m[(b, a)] -= w
            else:
                m[(b, a)] += w
                m[(a, b)] -= w
    return m


def tiers(cands, marg):
    """Dominating tiers, top first, each a sorted list."""
    cands = list(cands)
    n = len(cands)
    dom = []
    for k in range(1, n + 1):
        for sub in itertools.combinations(cands, k):
            s = set(sub)
            if all(marg[(a, b)] > 0 for a in s for b in cands if b not in s):
                dom.append(s)
    dom.sort(key=len)
    # chain check (always true mathematically; asserted to protect the oracle itself)
    for x, y in zip(dom, dom[1:]):
        assert x < y, (x, y)
    out, prev = [], set()
    for s in dom:
        out.append(sorted(s - prev))
        prev = s
    return out


def condorcet_winner(cands, marg):
    for a in cands:
        if all(marg[(a, b)] > 0 for b in cands if b != a):
            return a
    return None
