"""Reference STV step model, written from the statement of C02 in exact rationals.

It does not predict one outcome; it *judges each recorded round* given the model state reached
so far, then applies the step that was recorded.  Nothing here imports VoteKit.

State: dict ranking(tuple of names) -> weight; list of hopeful candidates; number elected."""

from __future__ import annotations

from fractions import Fraction

from ..cases import frac


def threshold(total, m, quota):
    total = Fraction(total)
    if quota == "droop":
        return (total / (m + 1)).__floor__() + 1
    if quota == "hare":
        return (total / m).__floor__()
    raise ValueError(quota)


class Problem:
    def __init__(self, code, detail):
        self.code = code
        self.detail = detail

    def __repr__(self):
        return f"{self.code}: {self.detail}"


class Model:
    def __init__(self, ballots, cands, m, quota="droop", full_weight=False):
        self.m = m
        self.hopeful = list(cands)
        self.pile = {}
        for b in ballots:
            r = tuple(p[0] for p in b["r"])
            self.pile[r] = self.pile.get(r, Fraction(0)) + frac(b["w"])
        self.total0 = sum(self.pile.values(), Fraction(0))
        self.threshold = threshold(self.total0, m, quota)
        self.full_weight = full_weight
        self.initial = self.tallies()
        self.elected = []
        self.eliminated = []
        # bookkeeping for non-triviality rules
        self.n_surplus = 0
        self.n_elim = 0
        self.n_default = 0
        self.n_ties = 0
        self.exhausted = Fraction(0)
        self.consumed = Fraction(0)

    # ---------------------------------------------------------------------------------------
    def tallies(self):
        t = {c: Fraction(0) for c in self.hopeful}
        for r, w in self.pile.items():
            t[r[0]] += w
        return t

    def total(self):
        return sum(self.pile.values(), Fraction(0))

    def grouping(self, t=None):
        t = self.tallies() if t is None else t
        by = {}
        for c, s in t.items():
            by.setdefault(s, []).append(c)
        return [sorted(by[s]) for s in sorted(by, reverse=True)]

    def seats_left(self):
        return self.m - len(self.elected)

    def finished(self):
        return len(self.elected) == self.m

    def reachers(self):
        t = self.tallies()
        return sorted(c for c in t if t[c] >= self.threshold)

    # ---- what the next step must look like -------------------------------------------------
    def next_kind(self):
        """'elect' | 'default' | 'eliminate'"""
        if self.reachers():
            return "elect"
        if len(self.hopeful) == self.seats_left():
            return "default"
        return "eliminate"

    def top_tie(self):
        """Candidates sharing the maximal tally (relevant in one-by-one mode)."""
        t = self.tallies()
        mx = max(t.values())
        return sorted(c for c in t if t[c] == mx)

    def overfull(self, simultaneous):
        return simultaneous and len(self.reachers()) > self.seats_left()

    def elimination_candidates(self):
        """The candidates the statement allows to be eliminated now."""
        t = self.tallies()
        mn = min(t.values())
        low = [c for c in t if t[c] == mn]
        mi = min(self.initial[c] for c in low)
        return sorted(c for c in low if self.initial[c] == mi), sorted(low)

    # ---- applying steps ------------------------------------------------------------------------
    def _remove(self, names):
        new = {}
        for r, w in self.pile.items():
            r2 = tuple(c for c in r if c not in names)
            if not r2:
                self.exhausted += w
                continue
            new[r2] = new.get(r2, Fraction(0)) + w
        self.pile = new
        self.hopeful = [c for c in self.hopeful if c not in names]

    def apply_elect(self, winners):
        t = self.tallies()
        new = {}
        for r, w in self.pile.items():
            if r[0] in winners and not self.full_weight:
                tv = (t[r[0]] - self.threshold) / t[r[0]]
                w = w * tv
            if w == 0:
                continue
            new[r] = new.get(r, Fraction(0)) + w
        for c in winners:
            if not self.full_weight:
                self.consumed += self.threshold
                if t[c] > self.threshold:
                    self.n_surplus += 1
        self.pile = new
        self._remove(set(winners))
        self.elected.extend(winners)

    def apply_default(self):
        self.n_default += 1
        self.elected.extend(self.hopeful)
        self.hopeful = []
        self.pile = {}

    def apply_eliminate(self, c):
        self.n_elim += 1
        self._remove({c})
        self.eliminated.append(c)

    # ---- judging one recorded round ------------------------------------------------------------
    def judge(self, state, simultaneous):
        """`state` = serialised ElectionState of the round that was run from the current model
        state.  Returns (problems, status) with status in {'ok','overfull','stop'}; applies the
        recorded step when it is legal."""
        probs = []
        elected = sorted(c for g in state["elected"] for c in g)
        elim = sorted(c for g in state["eliminated"] for c in g)
        kind = self.next_kind()
        t = self.tallies()
        if kind == "elect":
            if self.overfull(simultaneous):
                return probs, "overfull"
            if elim:
                probs.append(Problem("eliminated_in_election_round", f"{elim}"))
            if simultaneous:
                want = self.reachers()
                if elected != want:
                    probs.append(Problem("wrong_elected_set", f"tallies {t}, threshold {self.threshold}: quota-reachers {want}, recorded {elected}"))
                    return probs, "stop"
            else:
                top = self.top_tie()
                if len(elected) != 1 or elected[0] not in top:
                    probs.append(Problem("wrong_single_elected", f"tallies {t}, threshold {self.threshold}: highest {top}, recorded {elected}"))
                    return probs, "stop"
                if len(top) > 1:
                    self.n_ties += 1
            self.apply_elect(elected)
        elif kind == "default":
            if elim:
                probs.append(Problem("eliminated_in_default_round", f"{elim}"))
            if elected != sorted(self.hopeful):
                probs.append(Problem("default_election_wrong", f"remaining {sorted(self.hopeful)} equal the {self.seats_left()} unfilled seats, recorded elected {elected} eliminated {elim}"))
                return probs, "stop"
            self.apply_default()
        else:
            if elected:
                probs.append(Problem("elected_below_threshold", f"tallies {t}, threshold {self.threshold}, recorded elected {elected}"))
                return probs, "stop"
            allowed, low = self.elimination_candidates()
            if len(elim) != 1:
                probs.append(Problem("not_exactly_one_eliminated", f"tallies {t}: recorded eliminated {elim}"))
                return probs, "stop"
            if elim[0] not in low:
                probs.append(Problem("eliminated_not_lowest", f"tallies {t}: lowest {low}, recorded {elim}"))
                return probs, "stop"
            if elim[0] not in allowed:
                probs.append(Problem("elimination_tie_not_by_initial_tally", f"lowest {low}, initial tallies { {c: self.initial[c] for c in low} }, recorded {elim}"))
                return probs, "stop"
            if len(low) > 1:
                self.n_ties += 1
            self.apply_eliminate(elim[0])
        # the recorded tallies and order are those of the ballots resulting from the step
        want_scores = self.tallies()
        got_scores = {c: frac(v) for c, v in state["scores"].items()}
        if got_scores != want_scores:
            probs.append(Problem("scores_mismatch", f"recorded {got_scores}, resulting ballots give {want_scores}"))
        want_rem = self.grouping(want_scores) if want_scores else []
        if state["remaining"] != want_rem:
            probs.append(Problem("remaining_mismatch", f"recorded {state['remaining']}, tallies give {want_rem}"))
        return probs, "ok"
