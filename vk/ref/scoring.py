"""Reference positional scoring, written from the statement of C04 in exact rationals.

A ballot is plain data {"r": [[c,...],...], "w": number}; candidates is the profile's declared
candidate list.  Nothing here imports VoteKit."""

from __future__ import annotations

from fractions import Fraction

from ..cases import frac


def padded(vector, n):
    v = [frac(x) for x in vector]
    if len(v) < n:
        v = v + [Fraction(0)] * (n - len(v))
    return v


def positional(ballots, candidates, vector):
    """candidate -> exact score.  Tied candidates share the average of the points their
    position spans; candidates a ballot does not list share the remaining points equally."""
    n = len(candidates)
    v = padded(vector, n)
    scores = {c: Fraction(0) for c in candidates}
    for b in ballots:
        w = frac(b["w"])
        i = 0
        listed = set()
        for pos in b["r"]:
            g = len(pos)
            pts = sum(v[i:i + g], Fraction(0)) / g
            for c in pos:
                scores[c] += pts * w
                listed.add(c)
            i += g
        rest = [c for c in candidates if c not in listed]
        if rest:
            g = len(rest)
            pts = sum(v[i:i + g], Fraction(0)) / g
            for c in rest:
                scores[c] += pts * w
    return scores


def first_place(ballots, candidates):
    return positional(ballots, candidates, [1])


def borda(ballots, candidates):
    n = len(candidates)
    return positional(ballots, candidates, list(range(n, 0, -1)))


def mentions(ballots, candidates):
    m = {c: Fraction(0) for c in candidates}
    for b in ballots:
        for pos in b["r"]:
            for c in pos:
                m[c] += frac(b["w"])
    return m


def ranking_from_scores(scores, high_low=True):
    """Group candidates by equal score, ordered; returns list of sorted lists."""
    by = {}
    for c, s in scores.items():
        by.setdefault(s, []).append(c)
    return [sorted(by[s]) for s in sorted(by, reverse=high_low)]
