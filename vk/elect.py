"""Build and run VoteKit elections from plain-data cases; serialise their recorded rounds.

Every call into VoteKit goes through rng.owned(); `_run_step` of the class under test is wrapped
with a progress counter (DESIGN 1.5) and, optionally, a recorder of the profiles entering and
leaving each round."""

from __future__ import annotations

from fractions import Fraction

from . import cases as C
from . import rng as R


class NoProgress(Exception):
    pass


RANKING_RULES = [
    "STV", "IRV", "SequentialRCV", "Plurality", "SNTV", "Borda", "TopTwo", "Alaska",
    "DominatingSets", "CondoBorda", "RandomDictator", "BoostedRandomDictator", "PluralityVeto",
]
SCORE_RULES = ["Rating", "Limited", "Cumulative", "Approval", "BlocPlurality", "GeneralRating"]
STV_FAMILY = ["STV", "IRV", "SequentialRCV"]
# rules whose ballots may carry tied positions
TIES_OK = ["Plurality", "SNTV", "Borda", "TopTwo", "RandomDictator", "BoostedRandomDictator"]
ALWAYS_RANDOM = ["RandomDictator", "BoostedRandomDictator", "PluralityVeto"]


def rule_class(name):
    import votekit.elections as E

    return getattr(E, name)


def build(name, profile, cfg):
    """Construct the election `name` on `profile` with the plain-data configuration `cfg`."""
    import votekit.elections as E

    cls = rule_class(name)
    tb = cfg.get("tiebreak")
    m = cfg.get("m", 1)
    if name in ("STV",):
        transfer = E.fractional_transfer if cfg.get("transfer", "fractional") == "fractional" else E.random_transfer
        return cls(profile, m=m, transfer=transfer, quota=cfg.get("quota", "droop"),
                   simultaneous=cfg.get("simultaneous", True), tiebreak=tb)
    if name == "IRV":
        return cls(profile, quota=cfg.get("quota", "droop"), tiebreak=tb)
    if name == "SequentialRCV":
        return cls(profile, m=m, quota=cfg.get("quota", "droop"),
                   simultaneous=cfg.get("simultaneous", True), tiebreak=tb)
    if name in ("Plurality", "SNTV"):
        return cls(profile, m=m, tiebreak=tb)
    if name == "Borda":
        sv = cfg.get("score_vector")
        sv = [C.num(x) for x in sv] if sv is not None else None
        return cls(profile, m=m, score_vector=sv, tiebreak=tb)
    if name == "TopTwo":
        return cls(profile, tiebreak=tb)
    if name == "Alaska":
        transfer = E.fractional_transfer if cfg.get("transfer", "fractional") == "fractional" else E.random_transfer
        return cls(profile, m_1=cfg.get("m_1", 2), m_2=cfg.get("m_2", 1), transfer=transfer,
                   quota=cfg.get("quota", "droop"), simultaneous=cfg.get("simultaneous", True),
                   tiebreak=tb)
    if name == "DominatingSets":
        return cls(profile)
    if name == "CondoBorda":
        return cls(profile, m=m)
    if name in ("RandomDictator", "BoostedRandomDictator"):
        return cls(profile, m=m)
    if name == "PluralityVeto":
        return cls(profile, m=m, tiebreak=tb)
    if name == "Rating":
        return cls(profile, m=m, L=C.num(cfg.get("L", 1)), tiebreak=tb)
    if name == "GeneralRating":
        k = cfg.get("k")
        return cls(profile, m=m, L=C.num(cfg.get("L", 1)), k=None if k is None else C.num(k), tiebreak=tb)
    if name == "Limited":
        return cls(profile, m=m, k=C.num(cfg.get("k", 1)), tiebreak=tb)
    if name == "Cumulative":
        return cls(profile, m=m, tiebreak=tb)
    if name == "Approval":
        return cls(profile, m=m, tiebreak=tb)
    if name == "BlocPlurality":
        k = cfg.get("k")
        return cls(profile, m=m, k=None if k is None else C.num(k), tiebreak=tb)
    raise KeyError(name)


def ser_groups(t):
    return [sorted(str(c) for c in s) for s in t if len(s) > 0]


def ser_state(st):
    return {
        "round": st.round_number,
        "elected": ser_groups(st.elected),
        "eliminated": ser_groups(st.eliminated),
        "remaining": ser_groups(st.remaining),
        "scores": {str(c): C.enc(v) if not isinstance(v, float) else {"f": v} for c, v in sorted(st.scores.items())},
        "tiebreaks": sorted(
            [[sorted(str(c) for c in k), [sorted(str(c) for c in s) for s in v]] for k, v in st.tiebreaks.items()]
        ),
    }


class Result:
    def __init__(self):
        self.election = None
        self.exc = None  # exception object
        self.exc_type = None
        self.frame = None
        self.frames = []  # names of all votekit functions on the traceback
        self.states = None
        self.draws = 0
        self.log = []
        self.steps = 0
        self.step_profiles = []  # (profile_in, prev_round_number, profile_out)
        self.step_in = []  # (profile_in, prev_state) on entry of every stored round
        self.stdout = ""
        self.obj = None  # the election object as seen by _run_step (also when __init__ raised)
        self.partial = False

    @property
    def ok(self):
        return self.exc is None


def run(name, profile, cfg, rng=None, record_steps=False, bound=None):
    """Run an election under the owned random layer.  Never raises for VoteKit exceptions."""
    from .run import votekit_frame

    rng = rng or {"seed": 0}
    res = Result()
    cls = rule_class(name)
    n = max(1, len(profile.candidates))
    limit = bound if bound is not None else 3 * n + 10
    orig = cls._run_step
    counter = [0]

    def wrapped(self, prof, prev_state, store_states=False):
        if res.obj is None:
            res.obj = self
        if store_states:
            counter[0] += 1
            if counter[0] > limit:
                raise NoProgress(f"more than {limit} rounds for {n} candidates")
        if record_steps and store_states:
            res.step_in.append((prof, prev_state))
        out = orig(self, prof, prev_state, store_states)
        if record_steps and store_states:
            res.step_profiles.append((prof, prev_state.round_number, out))
        return out

    own = "_run_step" in cls.__dict__
    cls._run_step = wrapped
    try:
        with R.owned(rng.get("seed", 0), rng.get("script")) as layer:
            try:
                res.election = build(name, profile, cfg)
            except NoProgress as exc:
                res.exc = exc
                res.exc_type = "NoProgress"
            except Exception as exc:
                res.exc = exc
                res.exc_type = type(exc).__name__
                res.frame = votekit_frame(exc)
                tb = exc.__traceback__
                while tb is not None:
                    if "/votekit/" in tb.tb_frame.f_code.co_filename:
                        res.frames.append(tb.tb_frame.f_code.co_name)
                    tb = tb.tb_next
    finally:
        if own:
            cls._run_step = orig
        else:
            del cls._run_step
    res.draws = layer.draws
    res.log = list(layer.log)
    res.steps = counter[0]
    res.stdout = getattr(layer, "stdout", "")
    if res.election is not None:
        res.states = [ser_state(s) for s in res.election.election_states]
    elif res.obj is not None and hasattr(res.obj, "election_states"):
        # the constructor raised: the rounds recorded before the exception are still observable
        try:
            res.states = [ser_state(s) for s in res.obj.election_states]
            res.partial = True
        except Exception:
            res.states = None
    return res


def call(fn, *a, rng=None, **k):
    """Call any VoteKit function under the owned random layer; returns (value, exc, layer)."""
    rng = rng or {"seed": 0}
    with R.owned(rng.get("seed", 0), rng.get("script")) as layer:
        try:
            return fn(*a, **k), None, layer
        except Exception as exc:  # noqa: BLE001
            return None, exc, layer
