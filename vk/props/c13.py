"""C13 - composite and alias rules equal the composition they are documented to be."""

from __future__ import annotations

from fractions import Fraction

from hypothesis import strategies as st

from .. import cases as C
from .. import elect as E
from .. import rng as R
from .. import strategies as S
from ..ref import scoring as refs
from ..run import Outcome
from .c01 import reduce_ballots, straddle

ID = "C13"
BUDGET = {"quick": 12000, "thorough": 150000}
FUZZ = {"thorough": 4000}  # coverage-guided stage: libFuzzer runs per worker (x16), see vk/fuzz.py
RULE = (
    "Hypothesis: profile of 1-8 untied ballots over 1-6 declared candidates (partial, rational "
    "weights, zero-vote candidates, tie-rich variants) x composite in {IRV, SNTV, SequentialRCV, "
    "TopTwo, Alaska} x its configuration (m, m_1 >= m_2, quota, simultaneous, transfer, tiebreak) "
    "x one seed-or-script shared by both sides.  The composite's recorded rounds are compared "
    "with those of separately constructed components (STV m=1; Plurality; STV with a "
    "harness-written full-weight transfer; Plurality(2) then Plurality(1) on the harness-reduced "
    "profile, plus a direct runoff oracle; Plurality(m_1) -> harness removal -> STV(m_2)).  "
    "Non-trivial = Alaska with m_1 < n and >= 2 STV rounds, TopTwo where the plurality leader "
    "loses the runoff, or an IRV/SequentialRCV count with >= 3 rounds.  Distinct = SHA-1 of case JSON."
)
ASSUMPTIONS = [
    "both sides consume the shared random script in the same order (composite = components in sequence)",
    "Alaska's replay of its STV stage (finding F14) may consume extra draws after the stage; it does "
    "not affect the recorded rounds that are compared",
]


@st.composite
def case(draw):
    comp = draw(st.sampled_from(["IRV", "SNTV", "SequentialRCV", "TopTwo", "Alaska", "Alaska"]))
    transfer = "fractional"
    if comp == "Alaska":
        transfer = draw(st.sampled_from(["fractional", "fractional", "random"]))
    prof = draw(S.ranked_profile(2 if comp == "TopTwo" else 1, 6, 8, tied=False,
                                 weights="int" if transfer == "random" else "mixed",
                                 tie_rich=draw(st.integers(0, 2)) == 0))
    n = len(prof["cands"])
    cfg = {"tiebreak": draw(st.sampled_from([None, "random", "random", "borda", "first_place"]))}
    if comp in ("SNTV", "SequentialRCV"):
        cfg["m"] = draw(st.integers(1, n))
    if comp in ("IRV", "SequentialRCV", "Alaska"):
        cfg["quota"] = draw(st.sampled_from(["droop", "droop", "hare"]))
    if comp in ("SequentialRCV", "Alaska"):
        cfg["simultaneous"] = draw(st.booleans())
    if comp == "Alaska":
        cfg["m_1"] = draw(st.integers(1, n))
        cfg["m_2"] = draw(st.integers(1, cfg["m_1"]))
        cfg["transfer"] = transfer
    return {"comp": comp, "cands": prof["cands"], "ballots": prof["ballots"], "cfg": cfg,
            "rng": draw(S.rng_spec())}


def strategy(tier):
    return case()


def full_weight_transfer(winner, fpv, ballots, threshold):
    """Harness-written transfer: the winner's ballots move on at full weight."""
    from votekit.ballot import Ballot

    acc = {}
    for b in ballots:
        r = tuple(s for s in (frozenset(c for c in pos if c != winner) for pos in b.ranking) if s)
        if r:
            acc[r] = acc.get(r, Fraction(0)) + b.weight
    return tuple(Ballot(ranking=r, weight=w) for r, w in acc.items())


def _states(el):
    return [E.ser_state(s) for s in el.election_states]


def _drop_tb_if(states):
    return states


class _Pair:
    """Runs two constructions under identical random layers and reports both outcomes."""

    def __init__(self, rng):
        self.rng = rng

    def run(self, fn):
        with R.owned(self.rng.get("seed", 0), self.rng.get("script")) as layer:
            try:
                v = fn()
                return v, None, layer
            except Exception as exc:  # noqa: BLE001
                return None, exc, layer


def check(case):
    import votekit.elections as VE
    from ..run import votekit_frame

    out = Outcome()
    comp, cfg, cands, ballots = case["comp"], case["cfg"], case["cands"], case["ballots"]
    tb = cfg.get("tiebreak")
    n = len(cands)
    out.label(f"comp={comp}", f"tb={tb}")
    pair = _Pair(case["rng"])
    prof = C.mk_profile(ballots, cands)

    def compare(name, left, right):
        """left/right = (value, exc, layer) where value is a list of serialised states."""
        (lv, le, ll), (rv, re_, rl) = left, right
        if le is not None or re_ is not None:
            lt = type(le).__name__ if le is not None else None
            rt = type(re_).__name__ if re_ is not None else None
            if lt != rt:
                sub = name
                frames = []
                tbk = le.__traceback__ if le is not None else None
                while tbk is not None:
                    frames.append(tbk.tb_frame.f_code.co_name)
                    tbk = tbk.tb_next
                if comp == "Alaska" and le is not None and re_ is None and "get_profile" in frames:
                    sub = "alaska_replay_redraw"
                out.fail(sub, "exception_mismatch", f"{comp} {cfg}: composite raised {le!r}, components raised {re_!r}",
                         callee=votekit_frame(le) if le is not None else None)
            else:
                out.label("both_raise")
            return False
        if lv != rv:
            k = next((i for i, (a, b) in enumerate(zip(lv, rv)) if a != b), min(len(lv), len(rv)))
            out.fail(name, "states_differ", f"{comp} {cfg}: first difference at state {k}: "
                     f"composite {lv[k] if k < len(lv) else None} vs components {rv[k] if k < len(rv) else None} "
                     f"(lengths {len(lv)}/{len(rv)})")
            return False
        for i, stt in enumerate(lv):
            if stt["round"] != i:
                out.fail(name, "round_numbering", f"state {i} carries round_number {stt['round']}")
                return False
        return True

    if comp == "IRV":
        left = pair.run(lambda: _states(VE.IRV(prof, quota=cfg["quota"], tiebreak=tb)))
        right = pair.run(lambda: _states(VE.STV(prof, m=1, quota=cfg["quota"], tiebreak=tb)))
        compare("irv_vs_stv1", left, right)
        out.nontrivial = left[0] is not None and len(left[0]) >= 4
    elif comp == "SNTV":
        left = pair.run(lambda: _states(VE.SNTV(prof, m=cfg["m"], tiebreak=tb)))
        right = pair.run(lambda: _states(VE.Plurality(prof, m=cfg["m"], tiebreak=tb)))
        compare("sntv_vs_plurality", left, right)
        out.nontrivial = left[0] is not None and bool(left[0][-1]["tiebreaks"])
    elif comp == "SequentialRCV":
        kw = dict(m=cfg["m"], quota=cfg["quota"], simultaneous=cfg["simultaneous"], tiebreak=tb)
        left = pair.run(lambda: _states(VE.SequentialRCV(prof, **kw)))
        right = pair.run(lambda: _states(VE.STV(prof, transfer=full_weight_transfer, **kw)))
        compare("seqrcv_vs_stv_fullweight", left, right)
        out.nontrivial = left[0] is not None and len(left[0]) >= 4
    elif comp == "TopTwo":
        left = pair.run(lambda: _states(VE.TopTwo(prof, tiebreak=tb)))

        def components():
            p1 = VE.Plurality(prof, 2, tb)
            top = [c for s in p1.get_elected() for c in s]
            red = reduce_ballots(ballots, set(top))
            rp = C.mk_profile(red, [c for c in cands if c in top])
            s0 = E.ser_state(p1.election_states[0])
            s1 = {
                "round": 1, "elected": [], "eliminated": E.ser_groups(p1.get_remaining()),
                "remaining": E.ser_groups(p1.get_elected()),
                "scores": {c: C.enc(v) for c, v in sorted(refs.first_place(red, [c for c in cands if c in top]).items())},
                "tiebreaks": E.ser_state(p1.election_states[-1])["tiebreaks"],
            }
            p2 = VE.Plurality(rp, 1, tb)
            s2 = E.ser_state(p2.election_states[1])
            s2["round"] = 2
            return [s0, s1, s2]

        right = pair.run(components)
        same = compare("toptwo_vs_plurality2_plurality1", left, right)
        # direct oracle for the winner
        fp = refs.first_place(ballots, cands)
        if left[0] is not None:
            winner = [c for g in left[0][-1]["elected"] for c in g]
            finalists = [c for g in left[0][1]["remaining"] for c in g]
            order = [c for g in refs.ranking_from_scores(fp) for c in g]
            if straddle(fp, 2) is None and sorted(finalists) != sorted(order[:2]):
                out.fail("toptwo_oracle", "finalists", f"finalists {finalists}, two highest first-place {order[:2]} ({fp})")
            elif len(finalists) == 2:
                red = reduce_ballots(ballots, set(finalists))
                h2h = refs.first_place(red, finalists)
                best = max(h2h.values())
                allowed = [c for c in finalists if h2h[c] == best]
                if len(winner) != 1 or winner[0] not in allowed:
                    out.fail("toptwo_oracle", "winner", f"finalists {finalists}, head-to-head first preferences {h2h}, winner {winner}")
                if len(allowed) == 2 and tb is None:
                    out.fail("toptwo_oracle", "unbroken_runoff_tie", f"{h2h} tie, no tiebreak, yet {winner} won")
                lead = order[0]
                if straddle(fp, 1) is None and winner and winner[0] != lead and same:
                    out.nontrivial = True
                    out.label("leader_loses_runoff")
    else:  # Alaska
        tr = VE.fractional_transfer if cfg["transfer"] == "fractional" else VE.random_transfer
        kw = dict(transfer=tr, quota=cfg["quota"], simultaneous=cfg["simultaneous"], tiebreak=tb)
        left = pair.run(lambda: _states(VE.Alaska(prof, m_1=cfg["m_1"], m_2=cfg["m_2"], **kw)))

        def components():
            p1 = VE.Plurality(prof, cfg["m_1"], tb)
            top = [c for s in p1.get_elected() for c in s]
            red = reduce_ballots(ballots, set(top))
            order = [c for c in cands if c in top]
            rp = C.mk_profile(red, order)
            s0 = E.ser_state(p1.election_states[0])
            s1 = {
                "round": 1, "elected": [], "eliminated": E.ser_groups(p1.get_remaining()),
                "remaining": E.ser_groups(p1.get_elected()),
                "scores": {c: C.enc(v) for c, v in sorted(refs.first_place(red, order).items())},
                "tiebreaks": E.ser_state(p1.election_states[-1])["tiebreaks"],
            }
            stv = VE.STV(rp, cfg["m_2"], **kw)
            rest = []
            for s in stv.election_states[1:]:
                d = E.ser_state(s)
                d["round"] += 1
                rest.append(d)
            return [s0, s1] + rest

        right = pair.run(components)
        if cfg["transfer"] == "random" and (left[2].draws or right[2].draws) and left[0] and right[0]:
            # whole-ballot sampling depends on the order in which equal ballots are stored, which the
            # statement does not fix: compare what precedes the first sampled transfer
            out.label("random_transfer_prefix_only")
            lv, rv = left[0], right[0]
            k = 2
            if len(lv) > 2 and len(rv) > 2 and not lv[2]["tiebreaks"] and not rv[2]["tiebreaks"]:
                if (lv[2]["elected"], lv[2]["eliminated"]) != (rv[2]["elected"], rv[2]["eliminated"]):
                    out.fail("alaska_vs_plurality_then_stv", "first_stv_round",
                             f"{cfg}: composite {lv[2]} vs components {rv[2]}")
            compare("alaska_vs_plurality_then_stv", (lv[:k], None, left[2]), (rv[:k], None, right[2]))
        else:
            compare("alaska_vs_plurality_then_stv", left, right)
        if left[0] is not None and cfg["m_1"] < n and len(left[0]) >= 4:
            out.nontrivial = True
            out.label("alaska_multi_round")
    if out.nontrivial:
        out.labels.insert(0, f"nt:{comp}")
    return out
