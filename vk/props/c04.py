"""C04 - positional scores follow the definition exactly; Plurality/SNTV/Borda elect the top m."""

from __future__ import annotations

import itertools
from fractions import Fraction

from hypothesis import strategies as st

from .. import cases as C
from .. import elect as E
from .. import strategies as S
from ..ref import scoring as ref
from ..run import Outcome

ID = "C04"
BUDGET = {"quick": 16000, "thorough": 200000}
FUZZ = {"thorough": 6000}  # coverage-guided stage: libFuzzer runs per worker (x16), see vk/fuzz.py
RULE = (
    "Hypothesis: profile of 1-8 ballots with tied positions over 1-6 declared candidates "
    "(partial ballots, zero-vote candidates, int or p/q weights) x non-increasing non-negative "
    "score vector (ints | p/q | dyadic floats | arbitrary floats; shorter than, equal to, longer "
    "than the candidate list) x rule in {Plurality, SNTV, Borda} x m x tiebreak x random "
    "seed/script.  Thorough adds the complete enumeration of every tied-position shape over <= 4 "
    "candidates (every ordered set partition of every non-empty subset) as single-ballot and "
    "two-ballot profiles.  Non-trivial = a tied or unlisted group of size >= 3, or a short/long "
    "vector, or float entries.  Distinct = SHA-1 of canonical case JSON."
)
ASSUMPTIONS = [
    "float vector entries are read as the exact rationals they denote (Fraction(float)) and scores are "
    "compared exactly; only the to_float=True variant is compared to relative 1e-9",
]


@st.composite
def vector(draw, n, for_election):
    kind = draw(st.sampled_from(["int", "int", "rat", "dyadic", "float"]))
    ln = draw(st.sampled_from([n, n, max(1, n - 1), max(1, n - 2), n + 1, n + 3, 1]))
    if kind == "int":
        vals = draw(st.lists(st.integers(0, 7), min_size=ln, max_size=ln))
        vals = sorted(vals, reverse=True)
    elif kind == "rat":
        vals = draw(st.lists(st.fractions(0, 5, max_denominator=6), min_size=ln, max_size=ln))
        vals = [C.enc(v) for v in sorted(vals, reverse=True)]
    elif kind == "dyadic":
        vals = draw(st.lists(st.integers(0, 40), min_size=ln, max_size=ln))
        vals = [{"f": v / 8} for v in sorted(vals, reverse=True)]
    else:
        vals = draw(st.lists(st.floats(0, 10, allow_nan=False), min_size=ln, max_size=ln))
        vals = [{"f": v} for v in sorted(vals, reverse=True)]
    return {"kind": kind, "v": vals}


@st.composite
def case(draw):
    prof = draw(S.ranked_profile(1, 6, 8, tied=True, tie_rich=draw(st.booleans())))
    n = len(prof["cands"])
    rule = draw(st.sampled_from(["Plurality", "SNTV", "Borda", "Borda"]))
    vec = draw(vector(n, for_election=False))
    bvec = draw(st.one_of(st.none(), vector(n, for_election=True))) if rule == "Borda" else None
    return {
        "cands": prof["cands"],
        "ballots": prof["ballots"],
        "vector": vec,
        "rule": rule,
        "borda_vector": bvec,
        "m": draw(st.integers(1, n)),
        "tiebreak": draw(st.sampled_from([None, "random", "borda", "first_place"])),
        "rng": draw(S.rng_spec()),
    }


def strategy(tier):
    return case()


def _ordered_partitions(items):
    """All ordered set partitions (weak orders) of `items`."""
    items = list(items)
    if not items:
        yield []
        return
    for k in range(1, len(items) + 1):
        for first in itertools.combinations(items, k):
            rest = [x for x in items if x not in first]
            for tail in _ordered_partitions(rest):
                yield [sorted(first)] + tail


def exhaustive(tier):
    if tier != "thorough":
        return None
    return _exhaustive()


def _exhaustive():
    cands = ["A", "B", "C", "D"]
    shapes = []
    for k in range(1, 5):
        for sub in itertools.combinations(cands, k):
            shapes.extend(_ordered_partitions(sub))
    vecs = [
        {"kind": "int", "v": [1]},
        {"kind": "int", "v": [4, 3, 2, 1]},
        {"kind": "int", "v": [3, 1]},
        {"kind": "rat", "v": ["5/2", "1/3", "1/3", 0, 0]},
    ]
    for i, r in enumerate(shapes):
        for vi, vec in enumerate(vecs):
            other = shapes[(i * 7 + vi * 13 + 5) % len(shapes)]
            yield {
                "cands": cands, "ballots": [{"r": r, "w": 1}, {"r": other, "w": "2/3"}],
                "vector": vec, "rule": "Borda" if vi % 2 else "Plurality",
                "borda_vector": vec if vi % 2 else None, "m": 1 + (i % 4),
                "tiebreak": [None, "random", "borda", "first_place"][(i + vi) % 4],
                "rng": {"seed": i},
            }


def _close(a, b):
    a, b = Fraction(a), Fraction(b)
    return abs(a - b) <= Fraction(1, 10**9) * max(1, abs(a), abs(b))


def _cmp_scores(out, sub, got, exp, exact):
    if set(got) != set(exp):
        out.fail(sub, "keys", f"{sorted(got)} != {sorted(exp)}")
        return
    for c in exp:
        g = got[c]
        if exact:
            if not isinstance(g, Fraction) or g != exp[c]:
                out.fail(sub, "value", f"{c}: got {g!r}, definition gives {exp[c]}; all got={got} exp={exp}")
                return
        elif not _close(g, exp[c]):
            out.fail(sub, "value_tol", f"{c}: got {g!r}, definition gives {float(exp[c])}")
            return


def check(case):
    import votekit.utils as U

    out = Outcome()
    cands, ballots = case["cands"], case["ballots"]
    n = len(cands)
    prof = C.mk_profile(ballots, cands)
    vec = case["vector"]
    v_py = [C.num(x) for x in vec["v"]]
    # float entries are read as the exact rationals they denote (Fraction(float)); the statement
    # promises exact rational arithmetic for them as well
    exact = True
    out.label(f"vec={vec['kind']}", f"rule={case['rule']}",
              "len<" if len(v_py) < n else ("len>" if len(v_py) > n else "len="))

    # ---- utilities ---------------------------------------------------------------------------
    exp = ref.positional(ballots, cands, vec["v"])
    got, exc, _ = E.call(U.score_profile_from_rankings, prof, v_py)
    if exc is not None:
        out.fail("score_profile_from_rankings", type(exc).__name__, repr(exc))
    else:
        _cmp_scores(out, "score_profile_from_rankings", got, exp, exact)
        if exact:
            total = sum(got.values(), Fraction(0))
            want = prof.total_ballot_wt * sum(ref.padded(vec["v"], n)[:n], Fraction(0))
            if total != want:
                out.fail("score_profile_from_rankings", "points_sum",
                         f"ballots hand out {total}, weight*vector total is {want}")
        gotf, excf, _ = E.call(U.score_profile_from_rankings, prof, v_py, True)
        if excf is not None or any(not isinstance(x, float) for x in gotf.values()) or any(
            not _close(Fraction(gotf[c]), exp[c]) for c in exp
        ):
            out.fail("score_profile_from_rankings", "to_float", f"{gotf} vs {exp} ({excf!r})")
    for fn, want in (
        ("first_place_votes", ref.first_place(ballots, cands)),
        ("borda_scores", ref.borda(ballots, cands)),
        ("mentions", ref.mentions(ballots, cands)),
    ):
        g, exc, _ = E.call(getattr(U, fn), prof)
        if exc is not None:
            out.fail(fn, type(exc).__name__, repr(exc))
        else:
            _cmp_scores(out, fn, g, want, True)

    # ---- elections ---------------------------------------------------------------------------
    rule, m, tb = case["rule"], case["m"], case["tiebreak"]
    cfg = {"m": m, "tiebreak": tb}
    if rule == "Borda":
        bv = case["borda_vector"]
        if bv is not None:
            cfg["score_vector"] = bv["v"]
            escores = ref.positional(ballots, cands, bv["v"])
        else:
            escores = ref.borda(ballots, cands)
    else:
        escores = ref.first_place(ballots, cands)
    order = ref.ranking_from_scores(escores)
    # does a tie straddle seat m?
    cnt, straddle = 0, None
    for g in order:
        if cnt < m < cnt + len(g):
            straddle = g
        cnt += len(g)
    res = E.run(rule, prof, cfg, case["rng"])
    if straddle:
        out.label("boundary_tie")
    if res.exc is not None:
        if straddle and tb is None and res.exc_type == "ValueError":
            pass
        else:
            out.fail("election", res.exc_type, f"{rule} m={m} tiebreak={tb}: {res.exc!r}", callee=res.frame)
    else:
        el = res.election
        if straddle and tb is None:
            out.fail("election", "returned_on_unbroken_tie",
                     f"{rule} m={m}: tie {straddle} straddles seat {m}, no tiebreak, yet returned {res.states[-1]}")
        s0 = res.election.election_states[0].scores
        _cmp_scores(out, "round0_scores", dict(s0), escores, True)
        elected = el.get_elected()
        flat = [c for s in elected for c in s]
        if len(flat) != m or len(set(flat)) != m:
            out.fail("election", "winner_count", f"{rule} m={m}: elected {elected}")
        losers = [c for c in cands if c not in flat]
        if flat and losers and min(escores[c] for c in flat) < max(escores[c] for c in losers):
            out.fail("election", "loser_outscores_winner", f"{rule} m={m}: elected {elected}, scores {escores}")
        tbs = el.election_states[-1].tiebreaks
        broken = set()
        for k in tbs:
            broken |= set(k)
        for name, grp in (("elected", elected), ("remaining", el.get_remaining())):
            grp = [g for g in grp if len(g) > 0]
            prev = None
            for g in grp:
                vals = {escores[c] for c in g}
                if len(vals) != 1:
                    out.fail("election", "group_mixed_scores", f"{name} group {set(g)} scores {vals}")
                    break
                cur = next(iter(vals))
                if prev is not None:
                    if cur > prev[0]:
                        out.fail("election", "not_descending", f"{name}: {grp} scores {escores}")
                        break
                    if cur == prev[0] and not (set(g) <= broken and set(prev[1]) <= broken):
                        out.fail("election", "equal_scores_split",
                                 f"{name}: {set(prev[1])} and {set(g)} have equal score {cur} but are not tied and no tiebreak separated them")
                        break
                prev = (cur, g)
        listed = flat + [c for s in el.get_remaining() for c in s]
        if sorted(listed) != sorted(cands):
            out.fail("election", "candidates_lost", f"elected+remaining = {listed} vs {cands}")

    # ---- non-trivial ----------------------------------------------------------------------------
    big = False
    for b in ballots:
        listed = {c for p in b["r"] for c in p}
        if any(len(p) >= 3 for p in b["r"]) or n - len(listed) >= 3:
            big = True
    if big:
        out.label("group>=3")
    out.nontrivial = big or len(v_py) != n or vec["kind"] in ("float", "dyadic")
    return out
