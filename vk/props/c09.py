"""C09 - round-by-round queries on a finished election are consistent and pure (histories)."""

from __future__ import annotations

from fractions import Fraction

from hypothesis import strategies as st

from .. import cases as C
from .. import elect as E
from .. import rng as R
from .. import strategies as S
from ..run import Outcome
from . import c01

ID = "C09"
BUDGET = {"quick": 8000, "thorough": 100000}
QUERIES = ["get_profile", "get_step", "get_elected", "get_eliminated", "get_remaining",
           "get_ranking", "get_status_df", "len", "str"]
RULE = (
    "Hypothesis generates a HISTORY: a finished election (any rule; profile and configuration as in "
    "C01) followed by a sequence of 1-14 query operations drawn with repetition and in any order "
    "from get_profile / get_step / get_elected / get_eliminated / get_remaining / get_ranking / "
    "get_status_df / len / str with round indices in [-L-2, L+2].  Elections whose construction made "
    "a random draw are outside the property's domain and only counted.  A model captured at "
    "construction (copy of the recorded rounds + answers derived from them) is compared after "
    "every step.  extra: the same model driven by a Hypothesis RuleBasedStateMachine.  "
    "Non-trivial = >= 3 recorded rounds and the history queries a profile for a middle round, then "
    "another round, then an earlier one again, including a negative index.  Distinct = SHA-1 of case JSON."
)
ASSUMPTIONS = [
    "only elections whose construction drew no random number are judged (C09's stated domain)",
    "within a tied group the order of candidates in the status frame's index is not fixed",
]

NO_DRAW_RULES = ["STV", "IRV", "SequentialRCV", "Plurality", "SNTV", "Borda", "TopTwo", "Alaska",
                 "DominatingSets", "CondoBorda", "Rating", "Limited", "Cumulative", "Approval",
                 "BlocPlurality"]


WEIGHTED_RULES = ["STV"] * 6 + ["IRV"] * 3 + ["SequentialRCV"] * 3 + ["Alaska"] * 4 + ["TopTwo"] * 2 + [
    "Plurality", "SNTV", "Borda", "DominatingSets", "CondoBorda", "Rating", "Limited", "Cumulative",
    "Approval", "BlocPlurality"]


@st.composite
def case(draw):
    base = draw(c01.case(rules=WEIGHTED_RULES))
    if base["rule"] in ("STV", "SequentialRCV") and draw(st.integers(0, 3)) > 0:
        base["cfg"]["m"] = min(base["cfg"]["m"], draw(st.integers(1, 2)))  # few seats -> many rounds
    if base["rule"] in ("STV", "SequentialRCV", "IRV", "Alaska", "TopTwo") and draw(st.integers(0, 3)) > 0:
        # draw-free multi-round counts: distinct weights, every candidate gets a first place
        cands = base["cands"]
        if len(cands) < 3:
            cands = list(dict.fromkeys(cands + ["X", "Y", "Z"]))[:3 + draw(st.integers(0, 2))]
            base["cands"] = cands
        ws = draw(st.lists(st.integers(1, 40), min_size=len(cands) + 3, max_size=len(cands) + 3, unique=True))
        bl = []
        for i, w in enumerate(ws):
            first = cands[i % len(cands)]
            rest = [c for c in draw(st.permutations(cands)) if c != first]
            bl.append({"r": [[first]] + [[c] for c in rest[: draw(st.integers(0, len(rest)))]], "w": w})
        base["ballots"] = bl
        if base["cfg"].get("transfer") == "random":
            base["cfg"]["transfer"] = "fractional"
        for k in ("m", "m_1", "m_2"):
            if k in base["cfg"]:
                base["cfg"][k] = min(base["cfg"][k], len(cands))
    if base["rule"] == "Alaska" and draw(st.booleans()):
        base["cfg"]["m_1"] = len(base["cands"])
        base["cfg"]["m_2"] = min(base["cfg"]["m_2"], 2)
    ops = draw(st.lists(st.tuples(st.sampled_from(QUERIES), st.integers(-9, 9)), min_size=1, max_size=14))
    if draw(st.booleans()):
        # planted replay interleaving: middle round, last round, first rounds again, negative index
        ops = [("get_profile", 1), ("get_profile", -1), ("get_profile", 0), ("get_step", -2),
               ("get_profile", 2)] + ops[:8]
    base["ops"] = [[o, i] for o, i in ops]
    return base


def strategy(tier):
    return case()


class Model:
    """Answers derived from the recorded rounds by the harness."""

    def __init__(self, election, cands):
        self.states = [E.ser_state(s) for s in election.election_states]
        self.n = len(self.states)
        self.cands = list(cands)

    def norm(self, r):
        if r < -self.n or r > self.n - 1:
            return None
        return r % self.n

    def elected(self, r):
        return [g for s in self.states[: r + 1] for g in s["elected"]]

    def eliminated(self, r):
        return [g for s in self.states[r::-1] for g in s["eliminated"][::-1]]

    def remaining(self, r):
        return self.states[r]["remaining"]

    def ranking(self, r):
        return self.elected(r) + self.remaining(r) + self.eliminated(r)

    def status(self, r):
        d = {c: ("Remaining", 0) for c in self.cands}
        for i in range(1, r + 1):
            s = self.states[i]
            for g in s["elected"]:
                for c in g:
                    d[c] = ("Elected", i)
            for g in s["eliminated"]:
                for c in g:
                    d[c] = ("Eliminated", i)
            for g in s["remaining"]:
                for c in g:
                    d[c] = ("Remaining", i)
        return d


def apply_op(out, el, model, op, idx, prof_cands):
    """Run one query and compare it with the model.  Returns True if a profile was produced."""
    n = model.n
    r = model.norm(idx)
    name = f"{op}({idx})"

    def call(fn):
        try:
            return fn(), None
        except Exception as exc:  # noqa: BLE001
            return None, exc

    if op == "len":
        v, exc = call(lambda: len(el))
        if exc is not None or v != n - 1:
            out.fail("len", "value", f"len() = {v!r} ({exc!r}), recorded rounds {n - 1}")
        return
    if op == "str":
        v, exc = call(lambda: str(el))
        if exc is not None or not isinstance(v, str):
            out.fail("str", type(exc).__name__ if exc else "value", f"{exc!r}")
        return
    fn = getattr(el, op)
    v, exc = call(lambda: fn(idx))
    if r is None:
        if not isinstance(exc, IndexError):
            out.fail(op, "out_of_range_accepted" if exc is None else type(exc).__name__,
                     f"{name} with {n} recorded states: returned {v!r} / raised {exc!r}, expected IndexError")
        return
    if exc is not None:
        out.fail(op, type(exc).__name__, f"{name}: {exc!r}")
        return
    # the equivalent index of the other sign must agree
    other = r - n if idx >= 0 else r
    if op in ("get_elected", "get_eliminated", "get_remaining", "get_ranking"):
        want = {"get_elected": model.elected, "get_eliminated": model.eliminated,
                "get_remaining": model.remaining, "get_ranking": model.ranking}[op](r)
        got = E.ser_groups(v)
        if got != want:
            out.fail(op, "value", f"{name} = {got}, records up to round {r} give {want}")
        v2, exc2 = call(lambda: fn(other))
        if exc2 is not None or E.ser_groups(v2) != got:
            out.fail(op, "negative_index", f"{name} and index {other} disagree: {got} vs {v2!r} {exc2!r}")
    elif op == "get_status_df":
        want = model.status(r)
        try:
            got = {str(c): (row["Status"], int(row["Round"])) for c, row in v.iterrows()}
            index = [str(c) for c in v.index]
        except Exception as exc3:  # noqa: BLE001
            out.fail(op, "malformed", repr(exc3))
            return
        if got != want:
            out.fail(op, "value", f"{name}: {got}, records give {want}")
        flat_rank = model.ranking(r)
        pos = {c: i for i, g in enumerate(flat_rank) for c in g}
        seq = [pos.get(c, -1) for c in index]
        if seq != sorted(seq) or sorted(index) != sorted(model.cands):
            out.fail(op, "order", f"{name}: index {index} does not follow the ranking {flat_rank}")
    elif op in ("get_profile", "get_step"):
        prof = v if op == "get_profile" else v[0]
        if op == "get_step":
            st_ = E.ser_state(v[1])
            if st_ != model.states[r]:
                out.fail(op, "state", f"{name} returned state {st_}, recorded {model.states[r]}")
        want_c = sorted(c for g in model.remaining(r) for c in g)
        got_c = sorted(str(c) for c in prof.candidates)
        if got_c != want_c:
            out.fail(op, "profile_candidates", f"{name}: profile candidates {got_c}, remaining after round {r}: {want_c}")
        elif el.score_function is not None and model.states[r]["scores"] is not None:
            try:
                sc = el.score_function(prof)
                got_s = {str(c): C.enc(Fraction(x)) for c, x in sorted(sc.items())}
            except Exception as exc4:  # noqa: BLE001
                got_s = f"raised {exc4!r}"
            rec = model.states[r]["scores"]
            if rec or got_s:
                if got_s != rec:
                    out.fail(op, "rescoring", f"{name}: re-scoring gives {got_s}, round {r} recorded {rec}")
        return True


def run_history(out, case):
    rule, cfg = case["rule"], case["cfg"]
    prof = C.mk_profile(case["ballots"], case["cands"])
    res = E.run(rule, prof, cfg, case["rng"])
    if res.exc is not None:
        out.label("construction_raised")
        return None
    if res.draws:
        out.label("construction_drew")
        out.excluded = "construction_made_random_draw"
        return None
    el = res.election
    model = Model(el, case["cands"])
    out.label(f"rule={rule}", f"rounds={model.n - 1}")
    # before the queries a second election of the same rule is built and dropped: the same profile
    # with the last two candidates of a recorded tiebreak exchanging names, so that the same tied
    # set is resolved the other way round there (answers about `el` are facts about `el` alone)
    tbs = [tb for s_ in model.states for tb in s_["tiebreaks"]]
    if tbs and case.get("decoy", True):
        flat = [c for g in tbs[-1][1] for c in g]
        if len(flat) >= 2:
            ren = {flat[-1]: flat[-2], flat[-2]: flat[-1]}
            bl2 = [dict(bd, r=[[ren.get(c, c) for c in pos] for pos in bd["r"]]) if bd.get("r") else dict(bd)
                   for bd in case["ballots"]]
            try:
                E.run(rule, C.mk_profile(bl2, case["cands"]), cfg, case["rng"])
                out.label("decoy_election")
            except Exception:  # noqa: BLE001
                pass
    prof_ops = []
    with R.owned(case["rng"].get("seed", 0), case["rng"].get("script")) as layer:
        for op, idx in case["ops"]:
            before = len(out.fails)
            apply_op(out, el, model, op, idx, case["cands"])
            now = [E.ser_state(s) for s in el.election_states]
            if now != model.states:
                out.fail("purity", "records_changed", f"after {op}({idx}): {len(now)} states, first difference "
                         f"{next((i for i, (a, b) in enumerate(zip(now, model.states)) if a != b), min(len(now), len(model.states)))}")
                break
            if len(el) != model.n - 1:
                out.fail("purity", "length_changed", f"after {op}({idx}): len {len(el)}")
                break
            if op in ("get_profile", "get_step") and model.norm(idx) is not None:
                prof_ops.append((model.norm(idx), idx < 0))
            if len(out.fails) > before:
                break
    if layer.draws:
        out.fail("purity", "query_drew_random", f"queries on a draw-free election drew: {layer.log[:4]}")
    # non-trivial: middle round, then another, then an earlier one, with a negative index somewhere
    nt = False
    if model.n >= 4:
        for i in range(len(prof_ops) - 2):
            a, b, c = prof_ops[i][0], prof_ops[i + 1][0], prof_ops[i + 2][0]
            if 0 < a < model.n - 1 and b != a and c < max(a, b) and any(x[1] for x in prof_ops):
                nt = True
    out.nontrivial = nt
    if nt:
        out.labels.insert(0, f"nt:{rule}")
    return model


def check(case):
    out = Outcome()
    run_history(out, case)
    return out


# ---- the same model driven by a Hypothesis rule-based state machine (extra) ---------------------

_LAST = {}


def _machine_job(args):
    seed_, n_examples, steps, do_shrink = args
    import hypothesis
    from hypothesis import HealthCheck, Phase, settings
    from hypothesis.stateful import RuleBasedStateMachine, initialize, invariant, rule, run_state_machine_as_test

    stats = {"machines": 0, "steps": 0, "nt": set(), "fail": None, "drew": 0}

    class Queries(RuleBasedStateMachine):
        def __init__(self):
            super().__init__()
            self.el = None
            self.model = None
            self.case = None
            self.history = []

        @initialize(c=case())
        def build(self, c):
            stats["machines"] += 1
            c = dict(c)
            c["ops"] = []
            self.case = c
            prof = C.mk_profile(c["ballots"], c["cands"])
            res = E.run(c["rule"], prof, c["cfg"], c["rng"])
            if res.exc is None and not res.draws:
                self.el = res.election
                self.model = Model(self.el, c["cands"])
            elif res.draws:
                stats["drew"] += 1
            _LAST["case"] = c

        @rule(op=st.sampled_from(QUERIES), idx=st.integers(-9, 9))
        def query(self, op, idx):
            if self.el is None:
                return
            stats["steps"] += 1
            self.case["ops"].append([op, idx])
            _LAST["case"] = self.case
            out = Outcome()
            with R.owned(0) as layer:
                apply_op(out, self.el, self.model, op, idx, self.case["cands"])
            assert not out.fails, out.fails[0].to_json()
            assert layer.draws == 0, "query drew a random number"

        @invariant()
        def records_unchanged(self):
            if self.el is None:
                return
            now = [E.ser_state(s) for s in self.el.election_states]
            assert now == self.model.states, "recorded rounds changed"
            assert len(self.el) == self.model.n - 1

        def teardown(self):
            if self.el is not None and self.model.n >= 4 and len(self.case["ops"]) >= 3:
                stats["nt"].add(C.case_hash(self.case))

    try:
        run_state_machine_as_test(
            hypothesis.seed(seed_)(Queries),
            settings=settings(max_examples=n_examples, stateful_step_count=steps, deadline=None,
                              database=None, report_multiple_bugs=False,
                              phases=[Phase.generate, Phase.shrink] if do_shrink else [Phase.generate],
                              suppress_health_check=list(HealthCheck)),
        )
    except Exception as exc:  # noqa: BLE001 - the shrunk history is in _LAST
        stats["fail"] = (dict(_LAST.get("case") or {}), repr(exc)[:500])
    stats["nt"] = list(stats["nt"])
    return stats


def extra(tier, seed, pool):
    n_jobs = 16
    per = 25 if tier == "quick" else 400
    import os

    do_shrink = tier == "thorough" and os.environ.get("VK_SHRINK", "1") == "1"
    res = pool.map(_machine_job, [(seed * 100 + i, per, 20, do_shrink) for i in range(n_jobs)])
    fails, nt = [], []
    for r in res:
        nt.extend(r["nt"])
        if r["fail"]:
            c, msg = r["fail"]
            # re-judge the shrunk history through the plain check so the replay file is faithful
            out = check(c)
            fs = [f.to_json() for f in out.fails] or [
                {"subcheck": "state_machine", "failure": "assertion", "detail": msg, "callee": None}]
            fails.append((c, fs))
    return {
        "evaluations": sum(r["machines"] for r in res),
        "nontrivial_hashes": nt,
        "fails": fails,
        "coverage": {"state_machines_run": sum(r["machines"] for r in res),
                     "state_machine_steps": sum(r["steps"] for r in res),
                     "state_machines_skipped_random_construction": sum(r["drew"] for r in res)},
    }
