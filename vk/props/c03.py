"""C03 - surplus transfers and STV rounds conserve votes."""

from __future__ import annotations

import itertools
import math
import random as _random
from fractions import Fraction

from hypothesis import strategies as st

from .. import cases as C
from .. import elect as E
from .. import rng as R
from .. import stats
from .. import strategies as S
from ..run import Outcome

ID = "C03"
BUDGET = {"quick": 16000, "thorough": 200000}
FUZZ = {"thorough": 4000}  # coverage-guided stage: libFuzzer runs per worker (x16), see vk/fuzz.py
RULE = (
    "Hypothesis, three kinds of case: (frac) direct fractional_transfer calls and (rand) direct "
    "random_transfer calls on a generated ballot list (winner-led ballots with and without a "
    "continuation, ballots led by others that list the winner lower or not at all, duplicates; "
    "rational weights for frac, integer for rand), fpv = the real tally of the winner-led ballots, "
    "threshold in 1..floor(fpv); (run) whole STV counts with either transfer rule, both modes and "
    "quotas, with the profile entering and leaving every round recorded.  extra: seeded "
    "repetitions of random_transfer on fixed inputs, chi-square against the multivariate "
    "hypergeometric law.  Non-trivial = a transfer with surplus > 0 in which some winner ballot is "
    "exhausted and some is not (direct), or a run with such a round.  Distinct = SHA-1 of case JSON."
)
ASSUMPTIONS = [
    "direct calls satisfy the callers' precondition fpv = tally of winner-led ballots >= threshold >= 1",
    "random_transfer samples among the winner's transferable (non-exhausted) ballots; when those "
    "are fewer than the surplus all of them move on",
    "uniformity is decided at level 1e-9/tests per run (chi-square, cells with expectation < 5 pooled)",
]


@st.composite
def ballot_list(draw, integer):
    cands = draw(S.cand_names(2, 5, odd=False))
    winner = cands[0]
    others = cands[1:]
    wk = "int" if integer else draw(st.sampled_from(["int", "rat", "small"]))
    bl = []
    n_w = draw(st.integers(1, 5))
    for _ in range(n_w):
        kind = draw(st.sampled_from(["cont", "cont", "bullet"]))
        if kind == "bullet":
            r = [[winner]]
        else:
            r = [[winner]] + draw(S.untied_ranking(others))
        if bl and draw(st.integers(0, 3)) == 0:
            r = draw(st.sampled_from(bl))["r"]
        bl.append({"r": r, "w": draw(S.weight(wk))})
    for _ in range(draw(st.integers(0, 4))):
        r = draw(S.untied_ranking(others))
        if draw(st.booleans()):
            i = draw(st.integers(1, len(r)))
            r = r[:i] + [[winner]] + r[i:]
        bl.append({"r": r, "w": draw(S.weight(wk))})
    bl = list(draw(st.permutations(bl)))
    fpv = sum((C.frac(b["w"]) for b in bl if b["r"][0] == [winner]), Fraction(0))
    return cands, winner, bl, fpv


@st.composite
def case(draw, max_c=6, max_b=8):
    kind = draw(st.sampled_from(["frac", "rand", "run", "run"]))
    if kind in ("frac", "rand"):
        cands, winner, bl, fpv = draw(ballot_list(integer=(kind == "rand")))
        if fpv < 1:
            bl = bl + [{"r": [[winner]], "w": 1}]
            fpv += 1
        thr = draw(st.integers(1, math.floor(fpv)))
        return {"kind": kind, "cands": cands, "winner": winner, "ballots": bl,
                "fpv": C.enc(fpv), "threshold": thr, "rng": draw(S.rng_spec())}
    transfer = draw(st.sampled_from(["fractional", "random"]))
    prof = draw(S.ranked_profile(1, max_c, max_b, tied=False,
                                 weights="int" if transfer == "random" else "mixed",
                                 tie_rich=draw(st.integers(0, 3)) == 0))
    n = len(prof["cands"])
    return {
        "kind": "run", "cands": prof["cands"], "ballots": prof["ballots"],
        "m": draw(st.integers(1, n)), "quota": draw(st.sampled_from(["droop", "droop", "hare"])),
        "simultaneous": draw(st.booleans()), "transfer": transfer,
        "tiebreak": draw(st.sampled_from(["random", "borda", "first_place"])),
        "rng": draw(S.rng_spec()),
    }


def strategy(tier):
    return case() if tier == "quick" else st.one_of(case(), case(8, 12))


def _rmap(ballots):
    m = {}
    for b in ballots:
        k = C.ranking_key(b.ranking)
        m[k] = m.get(k, Fraction(0)) + b.weight
    return m


def _strip(r, names):
    return tuple(p for p in (tuple(c for c in pos if c not in names) for pos in r) if p)


def check_direct(case, out):
    import votekit.elections as VE

    winner, bl = case["winner"], case["ballots"]
    fpv, thr = C.frac(case["fpv"]), case["threshold"]
    ballots = [C.mk_ballot(b) for b in bl]
    surplus = fpv - thr
    led = [b for b in bl if b["r"][0] == [winner]]
    rest = [b for b in bl if b["r"][0] != [winner]]
    exh = [b for b in led if len(b["r"]) == 1]
    out.label(f"kind={case['kind']}")
    out.nontrivial = surplus > 0 and bool(exh) and len(exh) < len(led)
    # expected map of the ballots not led by the winner
    rest_map = {}
    for b in rest:
        k = _strip([tuple(p) for p in b["r"]], {winner})
        rest_map[k] = rest_map.get(k, Fraction(0)) + C.frac(b["w"])
    if case["kind"] == "frac":
        got, exc, _ = E.call(VE.fractional_transfer, winner, fpv, ballots, thr, rng=case["rng"])
        if exc is not None:
            out.fail("fractional_transfer", type(exc).__name__, repr(exc))
            return
        exp = dict(rest_map)
        tv = surplus / fpv
        for b in led:
            k = _strip([tuple(p) for p in b["r"]], {winner})
            w = C.frac(b["w"]) * tv
            if k and w > 0:
                exp[k] = exp.get(k, Fraction(0)) + w
        gm = _rmap(got)
        if gm != exp:
            out.fail("fractional_transfer", "weights", f"winner {winner} fpv {fpv} thr {thr}: got {gm}, definition gives {exp}")
        if any(winner in s for b in got for s in b.ranking):
            out.fail("fractional_transfer", "winner_present", f"{got}")
        return
    # random transfer ---------------------------------------------------------------------------
    pool = {}
    for b in led:
        k = _strip([tuple(p) for p in b["r"]], {winner})
        if k:
            pool[k] = pool.get(k, 0) + int(C.frac(b["w"]))
    pool_n = sum(pool.values())
    got, exc, _ = E.call(VE.random_transfer, winner, fpv, ballots, thr, rng=case["rng"])
    if pool_n < surplus:
        out.label("pool<surplus")
    if exc is not None:
        out.fail("random_transfer", type(exc).__name__,
                 f"winner {winner} fpv {fpv} thr {thr} transferable {pool_n}: {exc!r}")
        return
    gm = _rmap(got)
    if any(winner in s for b in got for s in b.ranking):
        out.fail("random_transfer", "winner_present", f"{got}")
    moved_total = Fraction(0)
    for k in set(gm) | set(rest_map) | set(pool):
        moved = gm.get(k, Fraction(0)) - rest_map.get(k, Fraction(0))
        if moved != int(moved) or moved < 0:
            out.fail("random_transfer", "not_whole_subcollection", f"ranking {k}: {moved} ballots moved; got {gm}, others {rest_map}")
            return
        if moved > pool.get(k, 0):
            out.fail("random_transfer", "more_than_available", f"ranking {k}: {moved} moved but the winner had {pool.get(k, 0)}")
            return
        moved_total += moved
    want = min(surplus, pool_n)
    if moved_total != want:
        out.fail("random_transfer", "surplus_size", f"{moved_total} ballots moved, surplus {surplus}, transferable {pool_n}")


def check_run(case, out):
    cfg = {"m": case["m"], "quota": case["quota"], "simultaneous": case["simultaneous"],
           "tiebreak": case["tiebreak"], "transfer": case["transfer"]}
    prof = C.mk_profile(case["ballots"], case["cands"])
    out.label("kind=run", f"transfer={case['transfer']}", f"sim={case['simultaneous']}")
    res = E.run("STV", prof, cfg, case["rng"], record_steps=True)
    thr = None
    el = res.election or res.obj
    if el is not None and hasattr(el, "threshold"):
        thr = el.threshold
    if res.exc is not None:
        # not this property's business unless it is the transfer itself (C01/C02 judge the rest)
        if res.frame == "transfers.py:random_transfer" or res.frame == "transfers.py:fractional_transfer":
            if thr == 0:
                out.excluded = "hare_threshold_zero"
                return
            out.fail("run_transfer_exception", res.exc_type, repr(res.exc), callee=res.frame)
        else:
            out.label("run_raised_elsewhere")
    if thr is None or thr == 0:
        return
    random_tr = case["transfer"] == "random"
    nt = False
    for (pin, prev_round, pout), stt in zip(res.step_profiles, (res.states or [])[1:]):
        tin, tout = pin.total_ballot_wt, pout.total_ballot_wt
        rnd = prev_round + 1
        if tout > tin:
            out.fail("run", "weight_increased", f"round {rnd}: {tin} -> {tout}")
            continue
        elected = [c for g in stt["elected"] for c in g]
        elim = [c for g in stt["eliminated"] for c in g]
        tallies = {c: Fraction(0) for c in pin.candidates}
        for b in pin.ballots:
            tallies[next(iter(b.ranking[0]))] += b.weight
        if elected and any(tallies[c] >= thr for c in elected):
            winners = set(elected)
            loss = tin - tout - len(winners) * thr
            exhausted = Fraction(0)
            bound = Fraction(0)
            some_exh = some_cont = False
            for b in pin.ballots:
                first = next(iter(b.ranking[0]))
                r = [tuple(s) for s in b.ranking]
                after_all = _strip(r, winners)
                if first in winners:
                    tv = (tallies[first] - thr) / tallies[first]
                    if not after_all:
                        exhausted += b.weight * tv
                        some_exh = True
                        if _strip(r, {first}):
                            bound += b.weight
                    else:
                        some_cont = True
                elif not after_all:
                    exhausted += b.weight
            if any(tallies[c] > thr for c in winners) and some_exh and some_cont:
                nt = True
            if not random_tr:
                if loss != exhausted:
                    out.fail("run", "election_round_balance",
                             f"round {rnd}: in {tin} out {tout}, {len(winners)} x threshold {thr}: "
                             f"unaccounted {loss}, exhausted weight is {exhausted}")
            else:
                # whole ballots; all surplus ballots are transferable, so nothing else is lost,
                # except (i) ballots whose continuation lists only other winners of this round and
                # (ii) surplus that exceeds the transferable pool
                short = Fraction(0)
                for c in winners:
                    pool = sum((b.weight for b in pin.ballots
                                if next(iter(b.ranking[0])) == c and _strip([tuple(s) for s in b.ranking], {c})), Fraction(0))
                    short += max(Fraction(0), tallies[c] - thr - pool)
                extra = loss - short
                # ballots led by non-winners that list only winners are exhausted too
                other_exh = sum((b.weight for b in pin.ballots
                                 if next(iter(b.ranking[0])) not in winners
                                 and not _strip([tuple(s) for s in b.ranking], winners)), Fraction(0))
                extra -= other_exh
                if extra != int(extra) or extra < 0 or extra > bound:
                    out.fail("run", "random_round_balance",
                             f"round {rnd}: in {tin} out {tout}, winners {sorted(winners)}, threshold {thr}: "
                             f"loss {loss}, short {short}, other exhausted {other_exh}, bound {bound}")
        elif elected:
            # default election of the last remaining candidates: everything left is exhausted
            if tout != 0:
                out.fail("run", "default_round_weight", f"round {rnd}: {tout} left after default election")
        elif elim:
            gone = sum((b.weight for b in pin.ballots if not _strip([tuple(s) for s in b.ranking], set(elim))), Fraction(0))
            if tin - tout != gone:
                out.fail("run", "elimination_round_balance",
                         f"round {rnd}: eliminated {elim}: in {tin} out {tout}, exhausted {gone}")
    out.nontrivial = nt
    if nt:
        out.labels.insert(0, f"nt:run:{case['transfer']}:sim={case['simultaneous']}")


def check(case):
    out = Outcome()
    if case["kind"] == "uniformity":
        r = _uniformity_job((tuple(case["counts"]), case["bullets"], case["surplus"], case["reps"], case["seed"]))
        if r["p"] < stats.ALPHA_RUN / 8:
            out.fail("random_transfer_uniformity", "chi2", f"p={r['p']:.3g} stat={r['stat']:.1f} dof={r['dof']}")
        return out
    if case["kind"] == "run":
        check_run(case, out)
    else:
        check_direct(case, out)
        if out.nontrivial:
            out.labels.insert(0, f"nt:{case['kind']}")
    return out


# ---- uniformity of the random selection (extra, statistical) -----------------------------------


def _hyper_law(counts, s):
    """Multivariate hypergeometric law of drawing s from groups with the given sizes."""
    total = sum(counts)
    law = {}
    for combo in itertools.product(*[range(min(c, s) + 1) for c in counts]):
        if sum(combo) != s:
            continue
        p = 1
        for c, k in zip(counts, combo):
            p *= math.comb(c, k)
        law[combo] = p / math.comb(total, s)
    return law


def _uniformity_job(args):
    counts, bullets, s, reps, seed = args
    import votekit.elections as VE
    from votekit.ballot import Ballot

    winner = "W"
    names = ["A", "B", "C", "D"]
    ballots = []
    keys = []
    for i, c in enumerate(counts):
        r = (frozenset({winner}), frozenset({names[i]}))
        ballots.append(Ballot(ranking=r, weight=c))
        keys.append((names[i],))
    if bullets:
        ballots.append(Ballot(ranking=(frozenset({winner}),), weight=bullets))
    ballots.append(Ballot(ranking=(frozenset({"A"}), frozenset({winner})), weight=2))
    fpv = sum(counts) + bullets
    thr = fpv - s
    obs = {}
    with R.owned(seed) as _:
        for _i in range(reps):
            got = VE.random_transfer(winner, fpv, ballots, thr)
            m = {}
            for b in got:
                m[tuple(next(iter(x)) for x in b.ranking)] = int(b.weight)
            combo = tuple(m.get(k, 0) - (2 if k == ("A",) else 0) for k in keys)
            obs[combo] = obs.get(combo, 0) + 1
    law = _hyper_law(counts, s)
    g = stats.gof(obs, law)
    return {"counts": counts, "bullets": bullets, "surplus": s, "reps": reps, "seed": seed,
            "p": g["p"], "stat": g["stat"], "dof": g["dof"], "impossible": g["impossible"]}


def extra(tier, seed, pool):
    rnd = _random.Random(seed * 7919 + 3)
    nsets = 8 if tier == "quick" else 48
    reps = 6000 if tier == "quick" else 20000
    jobs = []
    for i in range(nsets):
        k = rnd.randint(2, 3)
        counts = tuple(rnd.randint(1, 4) for _ in range(k))
        s = rnd.randint(1, sum(counts) - 1)
        jobs.append((counts, rnd.randint(0, 3), s, reps, seed * 1000 + i))
    results = pool.map(_uniformity_job, jobs)
    alpha = stats.ALPHA_RUN / len(jobs)
    fails = []
    for r in results:
        if r["p"] < alpha:
            fails.append((
                {"kind": "uniformity", **{k: r[k] for k in ("counts", "bullets", "surplus", "reps", "seed")}},
                [{"subcheck": "random_transfer_uniformity", "failure": "chi2",
                  "detail": f"p={r['p']:.3g} stat={r['stat']:.1f} dof={r['dof']} impossible={r['impossible']}", "callee": None}],
            ))
    return {
        "evaluations": len(jobs),
        "fails": fails,
        "samples": [{"kind": "uniformity", "counts": results[0]["counts"], "surplus": results[0]["surplus"], "p": results[0]["p"]}],
        "coverage": {"uniformity_tests": len(jobs), "uniformity_reps_each": reps, "per_test_alpha": alpha,
                     "min_p": min(r["p"] for r in results)},
    }
