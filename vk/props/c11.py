"""C11 - ballot and profile values: exact, immutable, condense/compare by content."""

from __future__ import annotations

from fractions import Fraction

from hypothesis import strategies as st

from .. import cases as C
from .. import strategies as S
from ..run import Outcome

ID = "C11"
BUDGET = {"quick": 12000, "thorough": 160000}
FUZZ = {"thorough": 6000}  # coverage-guided stage: libFuzzer runs per worker (x16), see vk/fuzz.py
RULE = (
    "Hypothesis: 1-7 ballots over <=4 candidates, each ballot one of {ranking only, scores only, "
    "both, neither}, tied positions allowed, weights/scores int | p/q | float (|x| >= 1e-5; weights "
    "also the Fraction holding a pooled float's exact binary value), "
    "optional id / voter set; profile B derived from A as {permutation, split/merge, one "
    "content's weight changed, one ballot's scores changed, independent}.  Non-trivial = some "
    "ranking occurs in A both with and without scores or with two different score dicts, and "
    "A has >= 2 ballots.  Distinct = SHA-1 of the canonical case JSON."
)
ASSUMPTIONS = [
    "zero-weight ballots, empty profiles and values of magnitude < 1e-5 are outside the domain",
    "content of a ballot = (ranking, non-zero scores); ids and voter sets are not content",
]

LIM = 10**6


FLOATS = [0.1, 0.25, 1 / 3, 2.5, 0.7, 1e-5, 3.000001, 1.1, 2 / 7]


@st.composite
def number(draw, positive=True, allow_zero=False, weight=False):
    kind = draw(st.sampled_from(["int", "int", "rat", "float"] + (["exactf"] if weight else [])))
    if kind == "exactf":
        # weights only: the Fraction holding a float's exact binary value (== that float, but a
        # Fraction weight is stored as given while the float is stored as its closest p/q, q <= 10**6)
        return C.enc(Fraction(draw(st.sampled_from(FLOATS))))
    if kind == "int":
        lo = 0 if allow_zero else 1
        return draw(st.integers(lo, 9))
    if kind == "rat":
        q = draw(st.sampled_from([2, 3, 4, 5, 6, 7, 12, 1000, 999983]))
        p = draw(st.integers(1, 3 * q))
        return C.enc(Fraction(p, q))
    f = draw(
        st.one_of(
            st.sampled_from(FLOATS),
            st.floats(min_value=1e-5, max_value=50, allow_nan=False, allow_infinity=False),
        )
    )
    return {"f": f}


@st.composite
def ballot(draw, cands, rankings_pool, scores_pool):
    shape = draw(st.sampled_from(["r", "r", "s", "rs", "rs", "none"]))
    b = {}
    if "r" in shape:
        if rankings_pool and draw(st.integers(0, 2)) > 0:
            b["r"] = draw(st.sampled_from(rankings_pool))
        else:
            b["r"] = draw(S.tied_ranking(cands))
            rankings_pool.append(b["r"])
    if "s" in shape:
        keys = draw(st.lists(st.sampled_from(cands), min_size=1, max_size=len(cands), unique=True))
        sc = {k: draw(number(allow_zero=True)) for k in keys}
        if draw(st.integers(0, 3)) == 0:
            # small values so equal score dicts recur
            sc = {k: draw(st.integers(0, 2)) for k in keys}
        if scores_pool and draw(st.integers(0, 2)) == 0:
            # the same scores as an earlier ballot, written in another key order
            prev = draw(st.sampled_from(scores_pool))
            sc = {k: prev[k] for k in draw(st.permutations(sorted(prev)))}
        scores_pool.append(sc)
        b["s"] = sc
    b["w"] = draw(number(weight=True))
    if draw(st.integers(0, 5)) == 0:
        b["id"] = draw(st.sampled_from(["x1", "x2", "id"]))
    if draw(st.integers(0, 5)) == 0:
        b["v"] = draw(st.lists(st.sampled_from(["v1", "v2", "v3"]), max_size=2, unique=True))
    return b


@st.composite
def case(draw):
    cands = draw(S.cand_names(1, 4))
    pool, spool = [], []
    A = draw(st.lists(ballot(cands, pool, spool), min_size=1, max_size=7))
    rel = draw(st.sampled_from(["perm", "split", "weight", "scores", "free", "reorder_scores"]))
    if rel == "perm":
        B = list(draw(st.permutations(A)))
    elif rel == "reorder_scores":
        B = []
        for b in draw(st.permutations(A)):
            nb = dict(b)
            if b.get("s"):
                nb["s"] = {k: b["s"][k] for k in reversed(list(b["s"]))}
            B.append(nb)
    elif rel == "split":
        B = []
        for b in draw(st.permutations(A)):
            if isinstance(b["w"], int) and b["w"] >= 2 and draw(st.booleans()):
                k = draw(st.integers(1, b["w"] - 1))
                B.append({**b, "w": k})
                B.append({**b, "w": b["w"] - k})
            else:
                B.append(b)
    elif rel == "weight":
        B = [dict(b) for b in A]
        i = draw(st.integers(0, len(B) - 1))
        B[i]["w"] = C.enc(C.frac(_stored(B[i]["w"])) + draw(st.sampled_from([1, Fraction(1, 7)])))
    elif rel == "scores":
        B = [dict(b) for b in A]
        i = draw(st.integers(0, len(B) - 1))
        if B[i].get("s"):
            k = draw(st.sampled_from(sorted(B[i]["s"])))
            s2 = dict(B[i]["s"])
            if draw(st.booleans()):
                s2[k] = C.enc(_stored(s2[k]) + 1)
            else:
                del s2[k]
            B[i]["s"] = s2 or None
        else:
            B[i]["s"] = {cands[0]: 1}
    else:
        B = draw(st.lists(ballot(cands, pool, spool), min_size=1, max_size=5))
    give_cands = draw(st.booleans())
    return {"cands": cands if give_cands else None, "A": A, "B": B, "rel": rel}


def strategy(tier):
    return case()


def _stored(x) -> Fraction:
    """What VoteKit is documented to store for a numeric input."""
    v = C.num(x)
    if isinstance(v, Fraction):
        return v
    return Fraction(v).limit_denominator(LIM)


def _content(bd):
    r = C.ranking_key(C.ranking_of(bd.get("r")))
    s = ()
    if bd.get("s"):
        s = tuple(sorted((c, _stored(v)) for c, v in bd["s"].items() if _stored(v) != 0))
    return (r, s)


def _content_of_ballot(b):
    return (C.ranking_key(b.ranking), C.scores_key(b.scores))


def _model_map(bl):
    m = {}
    for bd in bl:
        k = _content(bd)
        m[k] = m.get(k, Fraction(0)) + _stored(bd["w"])
    return m


def _prof_map(p):
    m = {}
    for b in p.ballots:
        k = _content_of_ballot(b)
        m[k] = m.get(k, Fraction(0)) + b.weight
    return m


def check(case):
    from votekit.ballot import Ballot
    from votekit.pref_profile import PreferenceProfile

    out = Outcome()
    A, B = case["A"], case["B"]
    out.label(f"rel={case['rel']}", f"nA={len(A)}")

    # ---- single ballots: exact storage, immutability -----------------------------------
    for bd in A:
        b = C.mk_ballot(bd)
        w = _stored(bd["w"])
        if not isinstance(b.weight, Fraction) or b.weight != w:
            out.fail("ballot_weight", "value", f"{bd} stored weight {b.weight!r}, expected {w}")
        exp_scores = dict(_content(bd)[1])
        got = b.scores or {}
        if any(not isinstance(v, Fraction) for v in got.values()) or dict(got) != exp_scores:
            out.fail("ballot_scores", "value", f"{bd} stored scores {got!r}, expected {exp_scores}")
        if bd.get("r") is not None and b.ranking != C.ranking_of(bd["r"]):
            out.fail("ballot_ranking", "value", f"{bd} stored ranking {b.ranking!r}")
        for attr, val in (("weight", Fraction(99)), ("ranking", (frozenset({"zz"}),)),
                          ("scores", {"zz": Fraction(1)}), ("id", "other"), ("voter_set", {"q"})):
            before = getattr(b, attr)
            try:
                setattr(b, attr, val)
                out.fail("ballot_immutable", "assignment_accepted", f"Ballot.{attr} reassigned")
            except Exception:
                pass
            if getattr(b, attr) != before:
                out.fail("ballot_immutable", "value_changed", f"Ballot.{attr} changed")

    # ---- profile derived fields -----------------------------------------------------------
    PA = C.mk_profile(A, case["cands"])
    PB = C.mk_profile(B, case["cands"])
    mA, mB = _model_map(A), _model_map(B)
    for P, bl, name in ((PA, A, "A"), (PB, B, "B")):
        if P.num_ballots != len(bl):
            out.fail("derived", "num_ballots", f"{name}: {P.num_ballots} != {len(bl)}")
        tw = sum((_stored(b["w"]) for b in bl), Fraction(0))
        if P.total_ballot_wt != tw:
            out.fail("derived", "total_ballot_wt", f"{name}: {P.total_ballot_wt} != {tw}")
        cast = set()
        for b in bl:
            for pos in b.get("r") or []:
                cast.update(pos)
            for c, v in (b.get("s") or {}).items():
                if _stored(v) != 0:
                    cast.add(c)
        if set(P.candidates_cast) != cast or len(P.candidates_cast) != len(cast):
            out.fail("derived", "candidates_cast", f"{name}: {P.candidates_cast} != {cast}")
        if case["cands"] is not None and tuple(P.candidates) != tuple(case["cands"]):
            out.fail("derived", "candidates", f"{name}: {P.candidates}")
        if case["cands"] is None and set(P.candidates) != cast:
            out.fail("derived", "candidates_inferred", f"{name}: {P.candidates} != {cast}")
    for attr, val in (("ballots", ()), ("candidates", ("zz",)), ("total_ballot_wt", Fraction(0)),
                      ("num_ballots", 99), ("candidates_cast", ())):
        before = getattr(PA, attr)
        try:
            setattr(PA, attr, val)
            out.fail("profile_immutable", "assignment_accepted", f"PreferenceProfile.{attr}")
        except Exception:
            pass
        if getattr(PA, attr) != before:
            out.fail("profile_immutable", "value_changed", f"PreferenceProfile.{attr}")

    # duplicate candidate list
    cl = list(case["cands"] or sorted({c for k in mA for pos in k[0] for c in pos} | {"A"}))
    try:
        PreferenceProfile(ballots=PA.ballots, candidates=tuple(cl + [cl[0]]))
        out.fail("dup_candidates", "accepted", f"candidates {cl + [cl[0]]} accepted")
    except ValueError:
        pass

    # ---- condense -----------------------------------------------------------------------------
    for P, m, name in ((PA, mA, "A"), (PB, mB, "B")):
        cp = P.condense_ballots()
        keys = [_content_of_ballot(b) for b in cp.ballots]
        if len(set(keys)) != len(keys):
            out.fail("condense", "not_distinct", f"{name}: contents repeat: {keys}")
        got = _prof_map(cp)
        if got != m:
            out.fail("condense", "weights", f"{name}: condensed {got} != input {m}")
        cp2 = cp.condense_ballots()
        if _prof_map(cp2) != got or cp2.num_ballots != cp.num_ballots:
            out.fail("condense", "not_idempotent", f"{name}: {_prof_map(cp2)} vs {got}")
        if cp.total_ballot_wt != P.total_ballot_wt:
            out.fail("condense", "total", f"{name}: {cp.total_ballot_wt} != {P.total_ballot_wt}")

    # ---- equality ---------------------------------------------------------------------------
    same = mA == mB
    out.label("equal_maps" if same else "different_maps")
    for X, Y, nm in ((PA, PB, "A==B"), (PB, PA, "B==A")):
        r = X == Y
        if bool(r) != same:
            out.fail("equality", "false_equal" if r else "false_unequal",
                     f"{nm} is {r} but content maps {'agree' if same else 'differ'}: {mA} / {mB}")

    # ---- addition -----------------------------------------------------------------------------
    PS = PA + PB
    mS = dict(mA)
    for k, v in mB.items():
        mS[k] = mS.get(k, Fraction(0)) + v
    if _prof_map(PS) != mS:
        out.fail("addition", "weights", f"A+B gives {_prof_map(PS)} expected {mS}")
    if PS.total_ballot_wt != PA.total_ballot_wt + PB.total_ballot_wt:
        out.fail("addition", "total", f"{PS.total_ballot_wt}")

    # ---- dict views: totals ----------------------------------------------------------------
    for fn in ("to_ballot_dict", "to_ranking_dict", "to_scores_dict"):
        d = getattr(PA, fn)()
        if sum(d.values(), Fraction(0)) != PA.total_ballot_wt:
            out.fail("dict_views", fn, f"values sum to {sum(d.values())} != {PA.total_ballot_wt}")
    rd = PA.to_ranking_dict()
    exp_rd = {}
    for (r, s), w in mA.items():
        exp_rd[r] = exp_rd.get(r, Fraction(0)) + w
    got_rd = {C.ranking_key(k) if k != (frozenset(),) else (): v for k, v in rd.items()}
    if got_rd != exp_rd:
        out.fail("dict_views", "to_ranking_dict_values", f"{got_rd} != {exp_rd}")

    # ---- non-trivial rule ---------------------------------------------------------------------
    by_r = {}
    for (r, s) in mA:
        by_r.setdefault(r, set()).add(s)
    mixed = any(len(v) >= 2 for v in by_r.values())
    if mixed:
        out.label("same_ranking_different_scores")
    out.nontrivial = mixed and len(A) >= 2
    return out
