"""C19 - Lp profile distance is a true metric; the ballot graph is complete and exact."""

from __future__ import annotations

import itertools
from fractions import Fraction

from hypothesis import strategies as st

from .. import cases as C
from .. import elect as E
from .. import strategies as S
from ..run import Outcome

ID = "C19"
BUDGET = {"quick": 10000, "thorough": 120000}
FUZZ = {"thorough": 6000}  # coverage-guided stage: libFuzzer runs per worker (x16), see vk/fuzz.py
RULE = (
    "Hypothesis: (lp) triples of untied profiles over a common set of 2-5 candidates (partial "
    "ballots, int or p/q weights with small denominators, rankings shared between the profiles "
    "on purpose) x p in {1,...,6,'inf'}, plus same-distribution variants of the first profile "
    "(reordered, condensed, all weights scaled); (graph_profile) untied profiles on 2-5 candidates "
    "loaded onto the ballot graph.  Exhaustive part (every run): the ballot graph for every n from "
    "2 to 5 (n = 6 in the thorough tier) compared node by node and edge by edge with the harness's "
    "enumeration of the definition.  Non-trivial = profiles with different supports (a ranking in "
    "one only), or p >= 3, or a ballot of length n-1.  Distinct = SHA-1 of canonical case JSON."
)
ASSUMPTIONS = [
    "values compared to relative 1e-9, symmetry / triangle inequality to 1e-12",
    "weights have small denominators so that distinct distributions are distinct floats",
]

PS = [1, 2, 3, 4, 5, 6, "inf"]


@st.composite
def case(draw):
    kind = draw(st.sampled_from(["lp", "lp", "graph_profile"]))
    cands = draw(S.cand_names(2, 5, odd=False))
    if kind == "graph_profile":
        bl = []
        for _ in range(draw(st.integers(1, 7))):
            bl.append({"r": draw(S.untied_ranking(cands)), "w": draw(S.weight())})
        return {"kind": kind, "cands": list(draw(st.permutations(cands))), "ballots": bl,
                "fix_short": draw(st.sampled_from([True, True, False]))}
    pool = [draw(S.untied_ranking(cands)) for _ in range(draw(st.integers(2, 6)))]
    profs = []
    for _ in range(3):
        bl = []
        for _ in range(draw(st.integers(1, 5))):
            r = draw(st.sampled_from(pool)) if draw(st.integers(0, 3)) else draw(S.untied_ranking(cands))
            bl.append({"r": r, "w": draw(S.weight())})
        profs.append(bl)
    return {"kind": "lp", "cands": cands, "profiles": profs, "p": draw(st.sampled_from(PS)),
            "scale": C.enc(draw(st.sampled_from([Fraction(2), Fraction(1, 3), Fraction(7, 2), Fraction(10)]))),
            "perm_seed": draw(st.integers(0, 1000))}


def strategy(tier):
    return case()


def exhaustive(tier):
    ns = [2, 3, 4, 5] + ([6] if tier == "thorough" else [])
    return [{"kind": "graph_n", "n": n} for n in ns]


# ---- reference ---------------------------------------------------------------------------------


def dist_of(ballots):
    m = {}
    tot = Fraction(0)
    for b in ballots:
        k = tuple(p[0] for p in b["r"])
        w = C.frac(b["w"])
        m[k] = m.get(k, Fraction(0)) + w
        tot += w
    return {k: v / tot for k, v in m.items()}


def ref_lp(d1, d2, p):
    keys = set(d1) | set(d2)
    diffs = [abs(d1.get(k, Fraction(0)) - d2.get(k, Fraction(0))) for k in keys]
    if p == "inf":
        return float(max(diffs))
    return float(sum(float(x) ** p for x in diffs) ** (1.0 / p))


def close(a, b, rel=1e-9):
    return abs(a - b) <= rel * max(1.0, abs(a), abs(b))


def ref_graph(n):
    nodes = set()
    for k in range(1, n + 1):
        if k == n - 1:
            continue
        for p in itertools.permutations(range(1, n + 1), k):
            nodes.add(p)
    edges = set()
    for u in nodes:
        for i in range(len(u) - 1):
            v = u[:i] + (u[i + 1], u[i]) + u[i + 2:]
            edges.add(frozenset((u, v)))
        # add the last ranked candidate (n-2 -> n skips the missing length n-1)
        if len(u) < n:
            rest = [c for c in range(1, n + 1) if c not in u]
            if len(u) == n - 2:
                for a, b in itertools.permutations(rest, 2):
                    edges.add(frozenset((u, u + (a, b))))
            else:
                for a in rest:
                    v = u + (a,)
                    if v in nodes:
                        edges.add(frozenset((u, v)))
    return nodes, edges


def check(case):
    from votekit.graphs import BallotGraph
    from votekit.metrics import lp_dist

    out = Outcome()
    kind = case["kind"]
    out.label(f"kind={kind}")
    if kind == "graph_n":
        n = case["n"]
        g, exc, _ = E.call(BallotGraph, n)
        if exc is not None:
            out.fail("graph", type(exc).__name__, repr(exc))
            return out
        nodes, edges = ref_graph(n)
        got_nodes = {tuple(x) if isinstance(x, tuple) else (x,) for x in g.graph.nodes}
        got_edges = {frozenset((tuple(a), tuple(b))) for a, b in g.graph.edges}
        if got_nodes != nodes:
            out.fail("graph", "nodes", f"n={n}: missing {sorted(nodes - got_nodes)[:5]}, extra {sorted(got_nodes - nodes)[:5]}")
        if got_edges != edges:
            out.fail("graph", "edges", f"n={n}: missing {[sorted(e) for e in list(edges - got_edges)[:4]]}, "
                     f"extra {[sorted(e) for e in list(got_edges - edges)[:4]]}")
        # the same graph from a candidate list
        g2, exc, _ = E.call(BallotGraph, [f"c{i}" for i in range(n)])
        if exc is not None or set(g2.graph.nodes) != set(g.graph.nodes) or g2.graph.number_of_edges() != len(edges):
            out.fail("graph", "from_candidate_list", f"n={n}: {exc!r}")
        out.nontrivial = True
        out.labels.insert(0, f"graph_n={n}")
        return out
    cands = case["cands"]
    n = len(cands)
    if kind == "graph_profile":
        bl = case["ballots"]
        prof = C.mk_profile(bl, cands)
        fix = case["fix_short"]
        g, exc, _ = E.call(BallotGraph, prof, True, fix)
        if exc is not None:
            out.fail("graph_profile", type(exc).__name__, repr(exc))
            return out
        num = {c: i + 1 for i, c in enumerate(cands)}
        want = {}
        total = Fraction(0)
        dropped = Fraction(0)
        for b in bl:
            node = [num[p[0]] for p in b["r"]]
            w = C.frac(b["w"])
            total += w
            if len(node) == n - 1:
                if fix:
                    node = node + [c for c in range(1, n + 1) if c not in node]
                else:
                    dropped += w  # length n-1 has no node of its own
                    continue
            want[tuple(node)] = want.get(tuple(node), Fraction(0)) + w
        got = {k: Fraction(v) for k, v in g.node_weights.items() if v != 0}
        if got != want:
            out.fail("graph_profile", "node_weights", f"candidates {cands}: got {got}, expected {want}")
        s = sum((Fraction(v) for v in g.node_weights.values()), Fraction(0))
        if fix and s != total:
            out.fail("graph_profile", "weights_sum", f"node weights sum to {s}, profile total {total}")
        attr = {k: Fraction(d["weight"]) for k, d in g.graph.nodes(data=True) if d.get("weight")}
        if attr != want:
            out.fail("graph_profile", "node_attribute_weights", f"{attr} vs {want}")
        cast = {k for k, d in g.graph.nodes(data=True) if d.get("cast")}
        if cast != set(want):
            out.fail("graph_profile", "cast_flags", f"{cast} vs {set(want)}")
        nodes, edges = ref_graph(n)
        if set(g.graph.nodes) != nodes or g.graph.number_of_edges() != len(edges):
            out.fail("graph_profile", "graph_shape", f"n={n}: {g.graph.number_of_nodes()} nodes {g.graph.number_of_edges()} edges")
        short = any(len(b["r"]) == n - 1 for b in bl)
        out.nontrivial = short or len(want) >= 3
        if short:
            out.label("length_n-1")
        return out
    # ---- lp ------------------------------------------------------------------------------------------
    p = case["p"]
    P = case["profiles"]
    profs = [C.mk_profile(bl, cands) for bl in P]
    dists = [dist_of(bl) for bl in P]
    val = {}
    for i, j in itertools.product(range(3), repeat=2):
        v, exc, _ = E.call(lp_dist, profs[i], profs[j], p)
        if exc is not None:
            out.fail("lp", type(exc).__name__, f"p={p}: {exc!r}")
            return out
        val[(i, j)] = float(v)
        want = ref_lp(dists[i], dists[j], p)
        if not close(val[(i, j)], want):
            out.fail("lp", "value", f"p={p}: lp_dist(P{i}, P{j}) = {v!r}, definition gives {want}; {dists[i]} / {dists[j]}")
            return out
        if (dists[i] == dists[j]) != (val[(i, j)] == 0):
            out.fail("lp", "zero_iff_same_distribution", f"p={p}: distance {v!r} but distributions "
                     f"{'equal' if dists[i] == dists[j] else 'differ'}: {dists[i]} / {dists[j]}")
    for i, j in itertools.combinations(range(3), 2):
        if abs(val[(i, j)] - val[(j, i)]) > 1e-12:
            out.fail("lp", "symmetry", f"p={p}: {val[(i, j)]} vs {val[(j, i)]}")
    for i, j, k in itertools.permutations(range(3), 3):
        if val[(i, k)] > val[(i, j)] + val[(j, k)] + 1e-12:
            out.fail("lp", "triangle", f"p={p}: d({i},{k})={val[(i, k)]} > {val[(i, j)]} + {val[(j, k)]}")
    # same-distribution variants of P0: reordered, condensed, rescaled
    import random as _r

    rr = _r.Random(case["perm_seed"])
    shuffled = list(P[0])
    rr.shuffle(shuffled)
    scaled = [{"r": b["r"], "w": C.enc(C.frac(b["w"]) * C.frac(case["scale"]))} for b in P[0]]
    variants = {"reordered": C.mk_profile(shuffled, cands), "rescaled": C.mk_profile(scaled, cands),
                "condensed": profs[0].condense_ballots()}
    for name, vp in variants.items():
        v, exc, _ = E.call(lp_dist, profs[0], vp, p)
        if exc is not None or float(v) != 0.0:
            out.fail("lp", f"variant_{name}", f"p={p}: distance to the {name} copy is {v!r} ({exc!r})")
        v1, _, _ = E.call(lp_dist, vp, profs[1], p)
        if v1 is not None and not close(float(v1), val[(0, 1)], 1e-12):
            out.fail("lp", f"variant_{name}_other", f"p={p}: {v1!r} vs {val[(0, 1)]}")
    diff_support = any(set(dists[i]) != set(dists[j]) for i, j in itertools.combinations(range(3), 2))
    if diff_support:
        out.label("different_supports")
    out.nontrivial = diff_support or (p != "inf" and p >= 3)
    if out.nontrivial:
        out.labels.insert(0, f"nt:lp:p={p}")
    return out
