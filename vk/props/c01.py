"""C01 - every election terminates with exactly m winners and a consistent outcome."""

from __future__ import annotations

from fractions import Fraction

from hypothesis import strategies as st

from .. import cases as C
from .. import elect as E
from .. import strategies as S
from ..ref import pairwise as refp
from ..ref import scoring as refs
from ..ref import stv as refstv
from ..run import Outcome
from . import c02

ID = "C01"
BUDGET = {"quick": 36000, "thorough": 400000}
FUZZ = {"thorough": 4000}  # coverage-guided stage: libFuzzer runs per worker (x16), see vk/fuzz.py
RULE = (
    "Hypothesis: (rule in the 18 rule classes, profile valid for that rule, configuration, seed or "
    "script for every random choice).  Ranked profiles: 1-6 declared candidates, 1-8 ballots, "
    "partial ballots, zero-vote candidates, int or p/q weights, tied positions where the rule "
    "allows them, tie-rich variants; score profiles valid for the rule's limits by construction.  "
    "m in 1..n, quota, simultaneous, transfer, tiebreak in {None, random, borda, first_place} "
    "({None, random} for score rules), Alaska m_1 >= m_2.  Thorough adds the exhaustive "
    "3-candidate STV sub-domain of C02 with random/fractional transfer.  Non-trivial = >= 2 "
    "recorded rounds, or a tie on the deciding tally, or a zero-vote candidate, or a ballot "
    "exhausted during the count.  Distinct = SHA-1 of canonical case JSON."
)
ASSUMPTIONS = [
    "termination is decided by a progress bound of 3n+10 recorded rounds (DESIGN 1.5)",
    "PluralityVeto is run on untied ballots or with a tiebreak (ties without one raise the documented AttributeError)",
    "DominatingSets / CondoBorda are run on untied ballots over <= 5 candidates (factorial ballot filling)",
]

ONE_SHOT = ["Plurality", "SNTV", "Borda"] + E.SCORE_RULES
RANK_TB = [None, "random", "borda", "first_place"]


@st.composite
def score_ballots(draw, cands, L, k):
    """Ballots with scores satisfying 0 < s <= L and sum <= k (k may be None) by construction."""
    L = C.frac(L)
    kk = None if k is None else C.frac(k)
    out = []
    for _ in range(draw(st.integers(1, 7))):
        keys = draw(st.lists(st.sampled_from(cands), min_size=1, max_size=len(cands), unique=True))
        sc, tot = {}, Fraction(0)
        for c in keys:
            s = L * draw(st.sampled_from([1, 1, Fraction(1, 2), Fraction(1, 3), Fraction(2, 3)]))
            if kk is not None and tot + s > kk:
                s = kk - tot
            if s > 0:
                sc[c] = C.enc(s)
                tot += s
        if not sc:
            sc[keys[0]] = C.enc(min(L, kk) if kk is not None else L)
        out.append({"s": sc, "w": draw(S.weight())})
    return out


@st.composite
def case(draw, rules=None, big=False):
    rule = draw(st.sampled_from(rules or (E.RANKING_RULES + E.SCORE_RULES[:5])))
    tie_rich = draw(st.integers(0, 2)) == 0
    cfg = {}
    if rule in E.SCORE_RULES:
        cands = draw(S.cand_names(1, 5))
        n = len(cands)
        m = draw(st.integers(1, n))
        cfg = {"m": m, "tiebreak": draw(st.sampled_from([None, "random"]))}
        L, k = 1, None
        if rule == "Rating":
            L = draw(st.sampled_from([1, 2, 5, "1/2"]))
            cfg["L"] = L
        elif rule == "Limited":
            k = draw(st.integers(1, m))
            L = k
            cfg["k"] = k
        elif rule == "Cumulative":
            L = k = m
        elif rule == "BlocPlurality":
            k = draw(st.one_of(st.none(), st.integers(1, n)))
            cfg["k"] = k
            k = m if k is None else k
        ballots = draw(score_ballots(cands, L, k))
        if tie_rich:
            ballots = ballots + [dict(b) for b in ballots[:2]]
        order = draw(st.permutations(cands))
        return {"rule": rule, "cands": list(order), "ballots": ballots, "cfg": cfg, "rng": draw(S.rng_spec())}
    tied = rule in E.TIES_OK and draw(st.booleans())
    maxc = 5 if rule in ("DominatingSets", "CondoBorda") else (8 if big else 6)
    minc = 2 if rule == "TopTwo" else 1
    weights = "mixed"
    transfer = "fractional"
    if rule in ("STV", "Alaska"):
        transfer = draw(st.sampled_from(["fractional", "fractional", "random"]))
    if transfer == "random":
        weights = "int"
    if rule == "PluralityVeto":
        weights = "small"
    prof = draw(S.ranked_profile(minc, maxc, 12 if big else 8, tied=tied, weights=weights, tie_rich=tie_rich))
    n = len(prof["cands"])
    cfg["m"] = draw(st.integers(1, n))
    if rule not in ("DominatingSets", "CondoBorda", "RandomDictator", "BoostedRandomDictator"):
        cfg["tiebreak"] = draw(st.sampled_from(RANK_TB))
    if rule in ("STV", "SequentialRCV", "Alaska", "IRV"):
        cfg["quota"] = draw(st.sampled_from(["droop", "droop", "hare"]))
        cfg["simultaneous"] = draw(st.booleans()) if rule != "IRV" else True
        cfg["transfer"] = transfer
    if rule == "Alaska":
        cfg["m_1"] = draw(st.integers(1, n))
        cfg["m_2"] = draw(st.integers(1, cfg["m_1"]))
    if rule == "Borda" and draw(st.booleans()):
        vals = sorted(draw(st.lists(st.integers(0, 5), min_size=1, max_size=n + 1)), reverse=True)
        if any(vals):
            cfg["score_vector"] = vals
    return {"rule": rule, "cands": prof["cands"], "ballots": prof["ballots"], "cfg": cfg,
            "rng": draw(S.rng_spec())}


def strategy(tier):
    return case() if tier == "quick" else st.one_of(case(), case(big=True))


def exhaustive(tier):
    if tier != "thorough":
        return None
    return _exh()


def _exh():
    cfgs = [
        ("STV", {"m": 2, "quota": "droop", "simultaneous": True, "transfer": "random", "tiebreak": "random"}),
        ("STV", {"m": 2, "quota": "droop", "simultaneous": False, "transfer": "random", "tiebreak": None}),
        ("STV", {"m": 1, "quota": "hare", "simultaneous": True, "transfer": "fractional", "tiebreak": "borda"}),
        ("Alaska", {"m_1": 2, "m_2": 1, "quota": "droop", "simultaneous": True, "transfer": "fractional", "tiebreak": "random"}),
        ("Alaska", {"m_1": 3, "m_2": 2, "quota": "droop", "simultaneous": False, "transfer": "fractional", "tiebreak": None}),
        ("TopTwo", {"tiebreak": "random"}),
        ("PluralityVeto", {"m": 1, "tiebreak": None}),
        ("RandomDictator", {"m": 2}),
    ]
    for i, (cands, ballots) in enumerate(c02.small_profiles()):
        for j, (rule, cfg) in enumerate(cfgs):
            if (i + j) % 4:  # a quarter of the product per configuration keeps the run bounded
                continue
            yield {"rule": rule, "cands": cands, "ballots": ballots, "cfg": dict(cfg),
                   "rng": {"seed": i, "script": [i, j, i // 5]}}


# ---- helpers -----------------------------------------------------------------------------------


def straddle(scores, m):
    """The tied group that straddles seat m on these scores, or None."""
    order = refs.ranking_from_scores(scores)
    cnt = 0
    for g in order:
        if cnt < m < cnt + len(g):
            return g
        cnt += len(g)
    return None


def score_totals(ballots, cands):
    t = {c: Fraction(0) for c in cands}
    for b in ballots:
        for c, v in b["s"].items():
            t[c] += C.frac(v) * C.frac(b["w"])
    return t


def reduce_ballots(ballots, keep):
    """Delete every candidate not in `keep` from every ballot; drop emptied ballots."""
    out = []
    for b in ballots:
        r = [[c for c in p if c in keep] for p in b["r"]]
        r = [p for p in r if p]
        if r:
            out.append({"r": r, "w": b["w"]})
    return out


def stv_valueerror_legit(case_like, res):
    """Is a ValueError out of an STV-family constructor explained by a one-by-one tie for
    election with tiebreak=None?  Judged with the reference step model on the partial records."""
    tmp = Outcome()
    model = refstv.Model(case_like["ballots"], case_like["cands"], case_like["m"], case_like["quota"],
                         full_weight=(case_like["rule"] == "SequentialRCV"))
    if model.threshold == 0:
        return False, model
    status = c02.judge_run(tmp, case_like, res, model)
    ok = (
        not tmp.fails and status in ("ok", "nostates") and not case_like["simultaneous"]
        and case_like["tiebreak"] is None and not model.finished()
        and model.next_kind() == "elect" and len(model.top_tie()) > 1
    )
    return ok, model


def recorded_top_tie(res, thr, simultaneous):
    """Random transfer: tallies depend on the sampled ballots, so the tie is read from the last
    recorded round: several candidates share the highest tally and it reaches the threshold."""
    if simultaneous or not res.states:
        return False
    sc = {c: C.frac(v) for c, v in res.states[-1]["scores"].items()}
    if not sc:
        return False
    mx = max(sc.values())
    return mx >= thr and sum(1 for v in sc.values() if v == mx) > 1


def records_overfull(states, thr, m, simultaneous):
    """Whole-ballot (random) transfer: the tallies depend on the sample, so the over-quota class of
    finding F10a is read from the recorded rounds: some recorded state in which the candidates at or
    above the threshold outnumber the seats still unfilled (or more than m are already elected)."""
    if not simultaneous or not states or thr <= 0:
        return False
    n_el = 0
    for stt in states:
        n_el += sum(len(g) for g in stt["elected"])
        if n_el > m:
            return True
        sc = [C.frac(v) for v in stt["scores"].values()]
        if sum(1 for v in sc if v >= thr) > m - n_el:
            return True
    return False


def alaska_stage_draws(case, res):
    """Does Alaska's STV stage make a random draw on this input?  The kept candidates are read
    from the recorded plurality round; the stage is then run by the harness under a few seeds."""
    cfg, cands = case["cfg"], case["cands"]
    if not res.states or len(res.states) < 2:
        return False
    keep = [c for g in res.states[1]["remaining"] for c in g]
    red = reduce_ballots(case["ballots"], set(keep))
    if not red:
        return False
    order = [c for c in cands if c in keep]
    for sd in range(3):
        r2 = E.run("STV", C.mk_profile(red, order),
                   {"m": cfg["m_2"], "quota": cfg.get("quota", "droop"),
                    "simultaneous": cfg.get("simultaneous", True), "tiebreak": cfg.get("tiebreak"),
                    "transfer": cfg.get("transfer", "fractional")}, {"seed": sd})
        if r2.draws > 0:
            return True
    return False


def check(case):
    out = Outcome()
    rule, cfg, cands, ballots = case["rule"], case["cfg"], case["cands"], case["ballots"]
    n = len(cands)
    prof = C.mk_profile(ballots, cands)
    tb = cfg.get("tiebreak")
    out.label(f"rule={rule}", f"tb={tb}")
    res = E.run(rule, prof, cfg, case["rng"])
    m = cfg.get("m", 1)
    want = m
    if rule in ("IRV", "TopTwo"):
        want = 1
    elif rule == "Alaska":
        want = cfg["m_2"]
    elif rule == "DominatingSets":
        want = len(refp.tiers(cands, refp.margins(ballots, cands))[0])

    # ---- known-finding classes that are decidable from the input (attribution only) ----------
    stv_like = {"rule": rule, "ballots": ballots, "cands": cands, "m": m, "quota": cfg.get("quota", "droop"),
                "simultaneous": cfg.get("simultaneous", True), "tiebreak": tb}

    if res.exc is not None:
        # ---- exceptions -------------------------------------------------------------------------
        if res.exc_type == "NoProgress":
            out.fail("termination", "NoProgress", f"{rule} {cfg}: {res.exc}")
            return out
        legit = False
        if res.exc_type == "ValueError" and tb is None:
            if rule in ("Plurality", "SNTV"):
                legit = straddle(refs.first_place(ballots, cands), m) is not None
            elif rule == "Borda":
                sv = cfg.get("score_vector")
                sc = refs.positional(ballots, cands, sv) if sv else refs.borda(ballots, cands)
                legit = straddle(sc, m) is not None
            elif rule in E.SCORE_RULES:
                legit = straddle(score_totals(ballots, cands), m) is not None
            elif rule == "TopTwo":
                fp = refs.first_place(ballots, cands)
                if straddle(fp, 2) is not None:
                    legit = True
                else:
                    top2 = [c for g in refs.ranking_from_scores(fp) for c in g][:2]
                    red = reduce_ballots(ballots, set(top2))
                    legit = straddle(refs.first_place(red, top2), 1) is not None
            elif rule in E.STV_FAMILY:
                if cfg.get("transfer", "fractional") == "fractional":
                    legit, _ = stv_valueerror_legit(stv_like, res)
                else:
                    legit = recorded_top_tie(res, refstv.threshold(prof.total_ballot_wt, m, cfg.get("quota", "droop")), stv_like["simultaneous"])
            elif rule == "Alaska":
                fp = refs.first_place(ballots, cands)
                if straddle(fp, cfg["m_1"]) is not None:
                    legit = True
                else:
                    keep = [c for g in refs.ranking_from_scores(fp) for c in g][: cfg["m_1"]]
                    red = reduce_ballots(ballots, set(keep))
                    keep_order = [c for c in cands if c in keep]
                    sub = {"rule": "STV", "ballots": red, "cands": keep_order, "m": cfg["m_2"],
                           "quota": cfg.get("quota", "droop"), "simultaneous": cfg.get("simultaneous", True),
                           "tiebreak": None}
                    if cfg.get("transfer", "fractional") == "fractional" and red:
                        r2 = E.run("STV", C.mk_profile(red, keep_order),
                                   {"m": cfg["m_2"], "quota": sub["quota"], "simultaneous": sub["simultaneous"],
                                    "tiebreak": None, "transfer": "fractional"}, case["rng"])
                        if r2.exc_type == "ValueError":
                            legit, _ = stv_valueerror_legit(sub, r2)
                    elif red:
                        # random transfer: the tie may appear on some sampling paths only; accept
                        # when the election is one-by-one (the only mode that can raise)
                        legit = not sub["simultaneous"]
        if legit:
            out.label("legit_ValueError_unbroken_tie")
            out.nontrivial = True
            return out
        sub = "exception"
        if rule == "Alaska" and "get_profile" in res.frames and alaska_stage_draws(case, res):
            # the constructor replays its STV stage (get_profile) and re-draws the random
            # tiebreaks of that stage (finding F14)
            sub = "alaska_replay_redraw"
        if rule == "Alaska" and sub == "exception" and res.states and len(res.states) >= 2:
            # judge the STV stage on its own (kept candidates read from the recorded plurality round)
            keep = [c for g in res.states[1]["remaining"] for c in g]
            red = reduce_ballots(ballots, set(keep))
            order = [c for c in cands if c in keep]
            if red:
                mdl = refstv.Model(red, order, cfg["m_2"], cfg.get("quota", "droop"))
                if mdl.threshold == 0:
                    sub = "hare_threshold_zero"
                elif cfg.get("transfer", "fractional") == "random":
                    # the STV stage's own rounds are not in Alaska's records when its constructor
                    # raises: run the stage on the reduced profile (a few sampling seeds) and read the
                    # over-quota class from those records
                    scfg = {"m": cfg["m_2"], "quota": cfg.get("quota", "droop"), "simultaneous": cfg.get("simultaneous", True),
                            "tiebreak": tb or "random", "transfer": "random"}
                    for sd in (case["rng"].get("seed", 0), 1, 2, 3):
                        r2 = E.run("STV", C.mk_profile(red, order), scfg, {"seed": sd})
                        if records_overfull(r2.states or [], mdl.threshold, cfg["m_2"], scfg["simultaneous"]):
                            sub = "overfull_round"
                            break
                elif cfg.get("transfer", "fractional") == "fractional":
                    scfg = {"m": cfg["m_2"], "quota": cfg.get("quota", "droop"), "simultaneous": cfg.get("simultaneous", True),
                            "tiebreak": tb, "transfer": "fractional"}
                    r2 = E.run("STV", C.mk_profile(red, order), scfg, case["rng"])
                    tmp = Outcome()
                    sl = {"rule": "STV", "ballots": red, "cands": order, "m": cfg["m_2"], "quota": scfg["quota"],
                          "simultaneous": scfg["simultaneous"], "tiebreak": tb}
                    status = c02.judge_run(tmp, sl, r2, mdl)
                    if status == "overfull" or (status in ("ok", "nostates") and not mdl.finished() and mdl.overfull(sl["simultaneous"])):
                        sub = "overfull_round"
        if rule in E.STV_FAMILY:
            # attribute the over-quota / Hare-zero class (findings F10a/F10b) from the records
            mdl = refstv.Model(ballots, cands, m, cfg.get("quota", "droop"), rule == "SequentialRCV")
            if mdl is not None and mdl.threshold == 0:
                sub = "hare_threshold_zero"
            elif mdl is not None and cfg.get("transfer", "fractional") == "random":
                if records_overfull(res.states or [], mdl.threshold, m, stv_like["simultaneous"]):
                    sub = "overfull_round"
            elif mdl is not None and cfg.get("transfer", "fractional") == "fractional":
                tmp = Outcome()
                status = c02.judge_run(tmp, stv_like, res, mdl)
                if status == "overfull" or (status in ("ok", "nostates") and mdl.overfull(stv_like["simultaneous"])):
                    sub = "overfull_round"
        out.fail(sub, res.exc_type, f"{rule} {cfg}: {res.exc!r}", callee=res.frame)
        return out

    # ---- a result exists -------------------------------------------------------------------------
    el = res.election
    L = len(el.election_states)
    final = [c for s in el.get_elected() for c in s]
    if len(final) != want or len(set(final)) != len(final):
        out.fail("winner_count", "value", f"{rule} {cfg}: elected {el.get_elected()}, expected {want} winners")
    prev_e, prev_x = set(), set()
    tie_seen = False
    for r in range(L):
        e = [c for s in el.get_elected(r) for c in s]
        x = [c for s in el.get_eliminated(r) for c in s]
        rem = [c for s in el.get_remaining(r) for c in s]
        allc = e + x + rem
        if sorted(allc, key=C.skey) != sorted(cands, key=C.skey):
            out.fail("partition", "round_groups", f"{rule} {cfg} round {r}: elected {e} remaining {rem} eliminated {x} vs candidates {cands}")
            break
        if not (prev_e <= set(e)) or not (prev_x <= set(x)):
            out.fail("partition", "status_not_kept", f"{rule} round {r}: elected {prev_e}->{e}, eliminated {prev_x}->{x}")
            break
        prev_e, prev_x = set(e), set(x)
        if el.election_states[r].tiebreaks:
            tie_seen = True
    # one-shot rules that return with tiebreak=None must not sit on a boundary tie
    if tb is None and rule in ONE_SHOT:
        if rule in ("Plurality", "SNTV"):
            sc = refs.first_place(ballots, cands)
        elif rule == "Borda":
            sv = cfg.get("score_vector")
            sc = refs.positional(ballots, cands, sv) if sv else refs.borda(ballots, cands)
        else:
            sc = score_totals(ballots, cands)
        g = straddle(sc, m)
        if g is not None:
            out.fail("unbroken_tie", "returned", f"{rule} m={m}: {g} straddle seat {m} on {sc}, no tiebreak, result {el.get_elected()}")
    if rule == "DominatingSets":
        top = refp.tiers(cands, refp.margins(ballots, cands))[0]
        if sorted(final) != sorted(top):
            out.fail("winner_count", "smith_set", f"elected {final}, top dominating tier {top}")

    zero = False
    if rule not in E.SCORE_RULES:
        mentioned = {c for b in ballots for p in b["r"] for c in p}
        zero = len(mentioned) < n
    if zero:
        out.label("zero_vote_candidate")
    if L >= 3:
        out.label("rounds>=2")
    if tie_seen:
        out.label("tiebreak_recorded")
    out.nontrivial = L >= 3 or tie_seen or zero
    if out.nontrivial:
        out.labels.insert(0, f"nt:{rule}")
    return out
