"""C20 - invalid requests are rejected up front with the documented error."""

from __future__ import annotations

from fractions import Fraction

from hypothesis import strategies as st

from .. import cases as C
from .. import elect as E
from .. import gen as G
from .. import strategies as S
from ..run import Outcome
from . import c01

ID = "C20"
BUDGET = {"quick": 10000, "thorough": 120000}
FUZZ = {"thorough": 6000}  # coverage-guided stage: libFuzzer runs per worker (x16), see vk/fuzz.py
EPS = Fraction(1, 10**6)
KINDS = [
    "no_ranking", "tied_position", "non_integer_weight_veto", "non_integer_weight_random_transfer",
    "non_integer_weight_stv_random", "missing_scores", "m_out_of_range", "alaska_stages",
    "score_vector", "rating_limits", "unknown_quota", "generator_sums", "generator_bloc_names",
    "overlapping_intervals", "duplicate_candidates", "from_params_checks",
]
RULE = (
    "Hypothesis: for each documented precondition (" + ", ".join(KINDS) + ") a valid request built "
    "from the strategies of the other properties plus EXACTLY ONE violation (smallest margin and "
    "gross) at a generated ballot index / parameter; the unperturbed request and the accepted "
    "boundary values (m = 1, m = n, L == k, Limited k == m, sums 1 +- 1e-10) must succeed; variants "
    "that depend on history: the invalid score vector as the just-accepted list edited in place, "
    "PluralityVeto's offending ballot with a twin carrying the complementary fraction.  Oracle: "
    "the documented exception type escapes and no rounds were recorded.  Non-trivial = the "
    "offending ballot is not the first, or the margin is the smallest one.  Distinct = SHA-1."
)
ASSUMPTIONS = [
    "pydantic's ValidationError counts as ValueError (it is a subclass)",
    "acceptance runs use a random tiebreak and complete ballots so that only the precondition under test can fail",
]

M_RULES = ["STV", "SequentialRCV", "Plurality", "SNTV", "Borda", "CondoBorda", "RandomDictator",
           "BoostedRandomDictator", "PluralityVeto", "Rating", "Limited", "Cumulative", "Approval",
           "BlocPlurality"]
GEN_MODELS = ["name_PlackettLuce", "name_BradleyTerry", "name_Cumulative", "slate_PlackettLuce",
              "slate_BradleyTerry", "AlternatingCrossover", "CambridgeSampler"]


@st.composite
def complete_profile(draw, min_c=2, max_c=5, integer=False):
    """Untied complete rankings, every candidate gets first-place support, distinct weights."""
    cands = draw(S.cand_names(min_c, max_c, odd=False))
    n = len(cands)
    ws = draw(st.lists(st.integers(1, 30), min_size=n + 2, max_size=n + 2, unique=True))
    bl = []
    for i, w in enumerate(ws):
        first = cands[i % n]
        rest = [c for c in draw(st.permutations(cands)) if c != first]
        bl.append({"r": [[first]] + [[c] for c in rest], "w": w})
    return cands, bl


@st.composite
def case(draw):
    kind = draw(st.sampled_from(KINDS))
    c = {"kind": kind, "rng": {"seed": draw(S.seed)}}
    if kind in ("no_ranking", "tied_position", "non_integer_weight_veto", "unknown_quota", "m_out_of_range",
                "alaska_stages", "non_integer_weight_stv_random"):
        cands, bl = draw(complete_profile())
        c.update(cands=cands, ballots=bl, index=draw(st.integers(0, len(bl) - 1)))
    if kind == "no_ranking":
        c["rule"] = draw(st.sampled_from(E.RANKING_RULES))
        c["variant"] = draw(st.sampled_from(["scores_only", "empty"]))
    elif kind == "tied_position":
        c["rule"] = draw(st.sampled_from(["STV", "IRV", "SequentialRCV", "Alaska"]))
        c["pos"] = draw(st.integers(0, len(c["cands"]) - 2))
    elif kind == "non_integer_weight_veto":
        c["delta"] = draw(st.sampled_from(["1/1000000", "1/2", "1/3"]))
        # twin: a second ballot with the same ranking carries the complementary fraction, so the two
        # offending ballots would add up to a whole number if they were merged
        c["twin"] = draw(st.booleans())
    elif kind == "non_integer_weight_random_transfer":
        c["delta"] = draw(st.sampled_from(["1/1000000", "1/2", "1/3"]))
        c["n_led"] = draw(st.integers(1, 4))
        c["index"] = draw(st.integers(0, c["n_led"] - 1))
    elif kind == "non_integer_weight_stv_random":
        c["delta"] = draw(st.sampled_from(["1/1000000", "1/2"]))
    elif kind == "missing_scores":
        c["rule"] = draw(st.sampled_from(E.SCORE_RULES))
        cands = draw(S.cand_names(1, 4, odd=False))
        c["cands"] = cands
        c["ballots"] = draw(c01.score_ballots(cands, 1, 1))
        c["index"] = draw(st.integers(0, len(c["ballots"]) - 1))
    elif kind == "m_out_of_range":
        c["rule"] = draw(st.sampled_from(M_RULES))
        c["bad_m"] = draw(st.sampled_from(["0", "-1", "n+1", "n+3"]))
    elif kind == "alaska_stages":
        c["variant"] = draw(st.sampled_from(["m1<m2", "m1=0", "m2=0", "m1=-1", "m1>n"]))
    elif kind == "score_vector":
        n = draw(st.integers(2, 5))
        vals = sorted(draw(st.lists(st.integers(0, 9), min_size=n, max_size=n)), reverse=True)
        c["vector"] = vals
        c["variant"] = draw(st.sampled_from(["negative_small", "negative", "increase_small", "increase"]))
        c["index"] = draw(st.integers(0, n - 1))
        c["target"] = draw(st.sampled_from(["validate_score_vector", "score_profile_from_rankings", "Borda"]))
        # the invalid vector is the very list object that was just accepted, edited in place
        c["same_object"] = draw(st.booleans())
        cands, bl = draw(complete_profile(n, n))
        c.update(cands=cands, ballots=bl)
    elif kind == "rating_limits":
        c["variant"] = draw(st.sampled_from(["L=0", "L=-1", "k=0", "k=-1", "L>k_small", "L>k", "limited_k>m",
                                             "limited_k>m_small", "bloc_k=0"]))
        cands = draw(S.cand_names(2, 4, odd=False))
        c["cands"] = cands
        c["m"] = draw(st.integers(1, len(cands)))
        c["ballots"] = [{"s": {cands[0]: 1}, "w": 2}, {"s": {cands[1]: 1}, "w": 1}]
    elif kind == "unknown_quota":
        c["rule"] = draw(st.sampled_from(["STV", "IRV", "SequentialRCV", "Alaska"]))
        c["quota"] = draw(st.sampled_from(["Droop", "hair", "", "droop "]))
    elif kind in ("generator_sums", "generator_bloc_names"):
        c["model"] = draw(st.sampled_from(GEN_MODELS))
        two = c["model"] in ("slate_BradleyTerry", "AlternatingCrossover", "CambridgeSampler")
        c["params"] = draw(G.params(n_blocs=2 if two else draw(st.integers(2, 3)), allow_zero=False, max_slate=2))
        if kind == "generator_sums":
            c["which"] = draw(st.sampled_from(["prop", "cohesion"]))
            c["delta"] = draw(st.sampled_from([1e-6, -1e-6, 0.01, -0.2, 1e-10, -1e-10]))
        else:
            c["which"] = draw(st.sampled_from(["prop", "cohesion", "intervals"]))
        c["bloc"] = draw(st.sampled_from(sorted(c["params"]["slates"])))
    elif kind == "from_params_checks":
        c["model"] = draw(st.sampled_from(GEN_MODELS))
        two = c["model"] in ("slate_BradleyTerry", "AlternatingCrossover", "CambridgeSampler")
        c["params"] = draw(G.params(n_blocs=2 if two else draw(st.integers(2, 3)), allow_zero=False, max_slate=2))
        c["variant"] = draw(st.sampled_from(["prop_sum", "slate_bloc_names", "prop_bloc_names"]))
        c["delta"] = draw(st.sampled_from([1e-6, -1e-6, 0.05, -0.3]))
        c["bloc"] = draw(st.sampled_from(sorted(c["params"]["slates"])))
    elif kind == "overlapping_intervals":
        c["a"] = draw(G.supports(["A", "B", "C"], allow_zero=False))
        c["b"] = draw(G.supports(["D", "E"], allow_zero=False))
        c["shared"] = draw(st.sampled_from(["A", "B", "C"]))
        c["overlap_kind"] = draw(st.sampled_from(["supported", "zero_in_second", "zero_in_first", "zero_in_both"]))
        # optionally a third, disjoint interval placed before / between / after the overlapping pair
        c["third_at"] = draw(st.sampled_from([None, 0, 1, 2]))
        c["c"] = draw(G.supports(["F", "G"], allow_zero=False))
    elif kind == "duplicate_candidates":
        cands, bl = draw(complete_profile())
        c.update(cands=cands, ballots=bl, dup=draw(st.integers(0, len(cands) - 1)),
                 at=draw(st.integers(0, len(cands))))
    return c


def strategy(tier):
    return case()


def expect_raise(out, sub, fn, types, what):
    """fn() must raise one of `types`; returns the Result-like tuple."""
    try:
        v = fn()
    except types:
        return True
    except Exception as exc:  # noqa: BLE001
        out.fail(sub, type(exc).__name__, f"{what}: raised {exc!r}, documented {[t.__name__ for t in types]}")
        return False
    out.fail(sub, "accepted", f"{what}: accepted, returned {str(v)[:200]}")
    return False


def run_expect(out, sub, rule, prof, cfg, rng, exc_name, what):
    res = E.run(rule, prof, cfg, rng)
    if res.exc is None:
        out.fail(sub, "accepted", f"{what}: {rule} {cfg} returned a result: {res.states[-1] if res.states else None}")
    elif res.exc_type != exc_name and not (exc_name == "ValueError" and isinstance(res.exc, ValueError)):
        out.fail(sub, res.exc_type, f"{what}: {rule} {cfg} raised {res.exc!r}, documented {exc_name}", callee=res.frame)
    return res


def run_accept(out, sub, rule, prof, cfg, rng, what):
    res = E.run(rule, prof, cfg, rng)
    if res.exc is not None and rule == "Alaska" and "get_profile" in res.frames and res.draws:
        # Alaska's constructor replayed its STV stage and re-drew a random tiebreak (finding F14,
        # judged by C01/C13); not a precondition failure
        out.excluded = "alaska_replay_redraw"
        return res
    if res.exc is not None:
        out.fail(sub, f"valid_rejected_{res.exc_type}", f"{what}: {rule} {cfg} raised {res.exc!r}", callee=res.frame)
    return res


def default_cfg(rule, n):
    cfg = {"m": 1, "tiebreak": "random"}
    if rule == "Alaska":
        cfg.update(m_1=min(2, n), m_2=1)
    if rule in ("DominatingSets", "CondoBorda", "RandomDictator", "BoostedRandomDictator"):
        cfg.pop("tiebreak")
    return cfg


def check(case):
    import votekit.elections as VE
    import votekit.utils as U
    from votekit.pref_profile import PreferenceProfile

    out = Outcome()
    kind = case["kind"]
    rng = case["rng"]
    out.label(f"kind={kind}")
    nt = False

    if kind == "no_ranking":
        rule, cands, bl, i = case["rule"], case["cands"], case["ballots"], case["index"]
        cfg = default_cfg(rule, len(cands))
        run_accept(out, kind, rule, C.mk_profile(bl, cands), cfg, rng, "valid profile")
        bad = [dict(b) for b in bl]
        bad[i] = {"w": bl[i]["w"], "s": {cands[0]: 1}} if case["variant"] == "scores_only" else {"w": bl[i]["w"]}
        res = run_expect(out, kind, rule, C.mk_profile(bad, cands), cfg, rng, "TypeError", f"ballot {i} without ranking")
        if res.states:
            out.fail(kind, "partial_result", f"{rule}: rounds recorded before rejection")
        nt = i > 0
    elif kind == "tied_position":
        rule, cands, bl, i = case["rule"], case["cands"], case["ballots"], case["index"]
        cfg = default_cfg(rule, len(cands))
        if rule == "Alaska":
            cfg["m_1"] = len(cands)  # every candidate reaches the STV stage, so the tie survives
        run_accept(out, kind, rule, C.mk_profile(bl, cands), cfg, rng, "valid profile")
        bad = [dict(b) for b in bl]
        r = [list(p) for p in bl[i]["r"]]
        p = min(case["pos"], len(r) - 2)
        r[p:p + 2] = [sorted(r[p] + r[p + 1])]
        bad[i]["r"] = r
        run_expect(out, kind, rule, C.mk_profile(bad, cands), cfg, rng, "TypeError", f"ballot {i} with tied position {r[p]}")
        nt = i > 0 or p > 0
    elif kind == "non_integer_weight_veto":
        cands, bl, i = case["cands"], case["ballots"], case["index"]
        cfg = {"m": 1, "tiebreak": "random"}
        small = [dict(b, w=min(int(b["w"]), 4)) for b in bl]
        run_accept(out, kind, "PluralityVeto", C.mk_profile(small, cands), cfg, rng, "integer weights")
        bad = [dict(b) for b in small]
        bad[i]["w"] = C.enc(C.frac(small[i]["w"]) + C.frac(case["delta"]))
        what = f"ballot {i} weight {bad[i]['w']}"
        if case.get("twin"):
            twin = dict(bad[i], w=C.enc(1 - C.frac(case["delta"])))
            bad.insert((i * 7 + 3) % (len(bad) + 1), twin)
            what += f" and a ballot with the same ranking of weight {twin['w']}"
        run_expect(out, kind, "PluralityVeto", C.mk_profile(bad, cands), cfg, rng, "TypeError", what)
        nt = i > 0 or case["delta"] == "1/1000000" or bool(case.get("twin"))
    elif kind == "non_integer_weight_random_transfer":
        i = case["index"]
        led = [{"r": [["W"], [["A"], ["B"]][j % 2]], "w": 2 + j} for j in range(case["n_led"])]
        ballots = [C.mk_ballot(b) for b in led]
        fpv = sum((b.weight for b in ballots), Fraction(0))
        v, exc, _ = E.call(VE.random_transfer, "W", fpv, ballots, 1, rng=rng)
        if exc is not None:
            out.fail(kind, f"valid_rejected_{type(exc).__name__}", repr(exc))
        bad = [dict(b) for b in led]
        bad[i]["w"] = C.enc(C.frac(led[i]["w"]) + C.frac(case["delta"]))
        bb = [C.mk_ballot(b) for b in bad]
        def direct():
            from .. import rng as R

            with R.owned(rng.get("seed", 0)):
                return VE.random_transfer("W", fpv, bb, 1)

        expect_raise(out, kind, direct, (TypeError,), f"ballot {i} weight {bad[i]['w']}")
        nt = i > 0 or case["delta"] == "1/1000000"
    elif kind == "non_integer_weight_stv_random":
        cands = case["cands"]
        a = cands[0]
        others = cands[1:]
        bl = [{"r": [[a]] + [[c] for c in others], "w": 6}, {"r": [[a], [others[0]]], "w": 5},
              {"r": [[others[0]]], "w": 1}]
        cfg = {"m": 1, "transfer": "random", "tiebreak": "random", "simultaneous": True, "quota": "droop"}
        run_accept(out, kind, "STV", C.mk_profile(bl, cands), cfg, rng, "integer weights")
        i = case["index"] % 2
        bad = [dict(b) for b in bl]
        bad[i]["w"] = C.enc(C.frac(bl[i]["w"]) + C.frac(case["delta"]))
        run_expect(out, kind, "STV", C.mk_profile(bad, cands), cfg, rng, "TypeError", f"winner's ballot {i} weight {bad[i]['w']}")
        nt = i > 0 or case["delta"] == "1/1000000"
    elif kind == "missing_scores":
        rule, cands, bl, i = case["rule"], case["cands"], case["ballots"], case["index"]
        cfg = {"m": 1, "tiebreak": "random"}
        run_accept(out, kind, rule, C.mk_profile(bl, cands), cfg, rng, "valid score profile")
        bad = [dict(b) for b in bl]
        bad[i] = {"r": [[cands[0]]], "w": bl[i]["w"]}
        res = run_expect(out, kind, rule, C.mk_profile(bad, cands), cfg, rng, "TypeError", f"ballot {i} without scores")
        if res.states:
            out.fail(kind, "partial_result", f"{rule}: rounds recorded before rejection")
        nt = i > 0
    elif kind == "m_out_of_range":
        rule, cands, bl = case["rule"], case["cands"], case["ballots"]
        n = len(cands)
        if rule in E.SCORE_RULES:
            prof_bl = [{"s": {c: 1}, "w": 1 + j} for j, c in enumerate(cands)]
        elif rule == "PluralityVeto":
            prof_bl = [dict(b, w=min(int(b["w"]), 4)) for b in bl]
        else:
            prof_bl = bl
        prof = C.mk_profile(prof_bl, cands)
        tb = {} if rule in ("CondoBorda", "RandomDictator", "BoostedRandomDictator") else {"tiebreak": "random"}
        for ok_m in (1, n):
            cfg = dict(tb, m=ok_m)
            if rule == "Limited":
                cfg["k"] = 1
            run_accept(out, kind, rule, prof, cfg, rng, f"boundary m={ok_m} of {n} candidates")
        bad_m = {"0": 0, "-1": -1, "n+1": n + 1, "n+3": n + 3}[case["bad_m"]]
        cfg = dict(tb, m=bad_m)
        if rule == "Limited":
            cfg["k"] = 1
        res = run_expect(out, kind, rule, prof, cfg, rng, "ValueError", f"m={bad_m} with {n} candidates")
        if res.states and len(res.states) > 1:
            out.fail(kind, "partial_result", f"{rule} m={bad_m}: {len(res.states) - 1} rounds recorded before rejection")
        nt = case["bad_m"] in ("0", "n+1")
    elif kind == "alaska_stages":
        cands, bl = case["cands"], case["ballots"]
        n = len(cands)
        prof = C.mk_profile(bl, cands)
        base = {"quota": "droop", "simultaneous": True, "tiebreak": "random", "transfer": "fractional"}
        run_accept(out, kind, "Alaska", prof, dict(base, m_1=n, m_2=n), rng, "m_1 = m_2 = n")
        run_accept(out, kind, "Alaska", prof, dict(base, m_1=1, m_2=1), rng, "m_1 = m_2 = 1")
        bad = {"m1<m2": (1, 2), "m1=0": (0, 0), "m2=0": (2, 0), "m1=-1": (-1, -2), "m1>n": (n + 1, 1)}[case["variant"]]
        run_expect(out, kind, "Alaska", prof, dict(base, m_1=bad[0], m_2=bad[1]), rng, "ValueError", f"m_1={bad[0]}, m_2={bad[1]}, n={n}")
        nt = case["variant"] in ("m1<m2", "m1>n")
    elif kind == "score_vector":
        vec = [Fraction(v) for v in case["vector"]]
        i = case["index"]
        prof = C.mk_profile(case["ballots"], case["cands"])
        bad = list(vec)
        var = case["variant"]
        if var.startswith("negative"):
            # a negative entry must be the only fault: put it last so the vector stays non-increasing
            i = len(bad) - 1
            bad[i] = -Fraction(1, 10**9) if var == "negative_small" else Fraction(-2)
        else:
            if i == 0:
                i = 1
            bad[i] = bad[i - 1] + (Fraction(1, 10**9) if var == "increase_small" else Fraction(3))
            for j in range(i + 1, len(bad)):
                bad[j] = min(bad[j], bad[i])
        tgt = case["target"]
        if case.get("same_object") and tgt != "Borda":
            new_vals = list(bad)
            bad = vec
            fn = U.validate_score_vector if tgt == "validate_score_vector" else (lambda v_: U.score_profile_from_rankings(prof, v_))
            v, exc, _ = E.call(fn, vec)
            if exc is not None:
                out.fail(kind, f"valid_rejected_{type(exc).__name__}", f"{vec}: {exc!r}")
            vec[:] = new_vals
            v, exc, _ = E.call(fn, vec)
        elif tgt == "validate_score_vector":
            v, exc, _ = E.call(U.validate_score_vector, vec)
            if exc is not None:
                out.fail(kind, f"valid_rejected_{type(exc).__name__}", f"{vec}: {exc!r}")
            v, exc, _ = E.call(U.validate_score_vector, bad)
        elif tgt == "score_profile_from_rankings":
            v, exc, _ = E.call(U.score_profile_from_rankings, prof, vec)
            if exc is not None:
                out.fail(kind, f"valid_rejected_{type(exc).__name__}", f"{vec}: {exc!r}")
            v, exc, _ = E.call(U.score_profile_from_rankings, prof, bad)
        else:
            if any(vec):
                run_accept(out, kind, "Borda", prof, {"m": 1, "tiebreak": "random", "score_vector": [C.enc(x) for x in vec]}, rng, f"vector {vec}")
            r = E.run("Borda", prof, {"m": 1, "tiebreak": "random", "score_vector": [C.enc(x) for x in bad]}, rng)
            v, exc = r.election, r.exc
        if exc is None:
            out.fail(kind, "accepted", f"{tgt}: vector {bad} ({var} at {i}) accepted")
        elif not isinstance(exc, ValueError):
            out.fail(kind, type(exc).__name__, f"{tgt}: vector {bad}: {exc!r}, documented ValueError")
        nt = var.endswith("small") or i > 1
    elif kind == "rating_limits":
        cands, m = case["cands"], case["m"]
        prof = C.mk_profile(case["ballots"], cands)
        var = case["variant"]
        run_accept(out, kind, "GeneralRating", prof, {"m": m, "L": 1, "k": 1, "tiebreak": "random"}, rng, "L == k")
        run_accept(out, kind, "Limited", prof, {"m": m, "k": m, "tiebreak": "random"}, rng, "Limited k == m")
        if var == "bloc_k=0":
            run_expect(out, kind, "BlocPlurality", prof, {"m": m, "k": 0, "tiebreak": "random"}, rng, "ValueError", "BlocPlurality k=0")
        elif var.startswith("limited"):
            k = m + 1 if var == "limited_k>m" else C.enc(m + EPS)
            run_expect(out, kind, "Limited", prof, {"m": m, "k": k, "tiebreak": "random"}, rng, "ValueError", f"Limited k={k} > m={m}")
        else:
            L, k = {"L=0": (0, None), "L=-1": (-1, None), "k=0": (1, 0), "k=-1": (1, -1),
                    "L>k_small": (C.enc(1 + EPS), 1), "L>k": (3, 2)}[var]
            rule = "GeneralRating" if k is not None or var.startswith("L>") else "Rating"
            cfg = {"m": m, "L": L, "tiebreak": "random"}
            if rule == "GeneralRating":
                cfg["k"] = k
            run_expect(out, kind, rule, prof, cfg, rng, "ValueError", f"{rule} L={L} k={k}")
        nt = var in ("k=0", "L>k_small", "limited_k>m_small", "bloc_k=0", "L=0")
    elif kind == "unknown_quota":
        rule, cands, bl = case["rule"], case["cands"], case["ballots"]
        prof = C.mk_profile(bl, cands)
        cfg = default_cfg(rule, len(cands))
        for q in ("droop", "hare"):
            run_accept(out, kind, rule, prof, dict(cfg, quota=q), rng, f"quota {q}")
        run_expect(out, kind, rule, prof, dict(cfg, quota=case["quota"]), rng, "ValueError", f"quota {case['quota']!r}")
        nt = case["quota"] in ("Droop", "droop ")
    elif kind in ("generator_sums", "generator_bloc_names"):
        model, params, bloc = case["model"], case["params"], case["bloc"]
        extra = {"num_votes": 2} if model == "name_Cumulative" else {}
        try:
            G.make(model, params, **extra)
        except Exception as exc:  # noqa: BLE001
            out.fail(kind, f"valid_rejected_{type(exc).__name__}", f"{model}: {exc!r}")
            return out
        kw = G.build_kwargs(params)
        which = case["which"]
        import votekit.ballot_generator as bg

        def build(kw_):
            kw2 = dict(kw_, **extra)
            if model in G.NAME_MODELS:
                kw2["candidates"] = [c for cs in params["slates"].values() for c in cs]
                kw2.pop("slate_to_candidates")
            return getattr(bg, model)(**kw2)

        if kind == "generator_sums":
            d = case["delta"]
            if which == "prop":
                kw["bloc_voter_prop"] = dict(kw["bloc_voter_prop"])
                kw["bloc_voter_prop"][bloc] += d
            else:
                kw["cohesion_parameters"] = {b: dict(v) for b, v in kw["cohesion_parameters"].items()}
                kw["cohesion_parameters"][bloc][bloc] += d
            if abs(d) <= 1e-9:
                try:
                    build(kw)
                except Exception as exc:  # noqa: BLE001
                    out.fail(kind, f"valid_rejected_{type(exc).__name__}", f"{model}: {which} sum 1{d:+g}: {exc!r}")
            else:
                expect_raise(out, kind, lambda: build(kw), (ValueError,), f"{model}: {which} of bloc {bloc} sums to 1{d:+g}")
            nt = abs(d) <= 1e-5
        else:
            key = {"prop": "bloc_voter_prop", "cohesion": "cohesion_parameters", "intervals": "pref_intervals_by_bloc"}[which]
            kw[key] = {(b if b != bloc else b + "_x"): v for b, v in kw[key].items()}
            expect_raise(out, kind, lambda: build(kw), (ValueError,), f"{model}: bloc {bloc} renamed in {key}")
            nt = which != "prop"
    elif kind == "from_params_checks":
        import votekit.ballot_generator as bg
        from .. import rng as R

        model, params, bloc = case["model"], case["params"], case["bloc"]
        extra = {"num_votes": 2} if model == "name_Cumulative" else {}
        kw = G.build_kwargs(params)
        alphas = {b: {b2: 1 for b2 in params["slates"]} for b in params["slates"]}

        def build(slates, prop, coh):
            with R.owned(rng.get("seed", 0)):
                return getattr(bg, model).from_params(slate_to_candidates=slates, bloc_voter_prop=prop,
                                                       cohesion_parameters=coh, alphas=alphas, **extra)

        try:
            build(kw["slate_to_candidates"], kw["bloc_voter_prop"], kw["cohesion_parameters"])
        except Exception as exc:  # noqa: BLE001
            out.fail(kind, f"valid_rejected_{type(exc).__name__}", f"{model}.from_params: {exc!r}")
            return out
        var = case["variant"]
        slates, prop, coh = dict(kw["slate_to_candidates"]), dict(kw["bloc_voter_prop"]), kw["cohesion_parameters"]
        if var == "prop_sum":
            prop[bloc] += case["delta"]
            what = f"bloc_voter_prop sums to 1{case['delta']:+g}"
        elif var == "slate_bloc_names":
            slates = {(b if b != bloc else b + "_x"): v for b, v in slates.items()}
            what = f"bloc {bloc} renamed in slate_to_candidates"
        else:
            prop = {(b if b != bloc else b + "_x"): v for b, v in prop.items()}
            what = f"bloc {bloc} renamed in bloc_voter_prop"
        expect_raise(out, kind, lambda: build(slates, prop, coh), (ValueError,), f"{model}.from_params: {what}")
        nt = var != "prop_sum" or abs(case["delta"]) <= 1e-5
    elif kind == "overlapping_intervals":
        from votekit.pref_interval import PreferenceInterval, combine_preference_intervals

        a = PreferenceInterval({c: G.fl(v) for c, v in case["a"].items()})
        b = PreferenceInterval({c: G.fl(v) for c, v in case["b"].items()})
        v, exc, _ = E.call(combine_preference_intervals, [a, b], [0.25, 0.75])
        if exc is not None:
            out.fail(kind, f"valid_rejected_{type(exc).__name__}", repr(exc))
        ok_kind = case.get("overlap_kind", "supported")
        sh = case["shared"]
        a_sup = {c: G.fl(v) for c, v in case["a"].items()}
        if ok_kind in ("zero_in_first", "zero_in_both"):
            a_sup[sh] = 0.0  # the shared candidate is listed with zero support in the first interval
        a2 = PreferenceInterval(a_sup)
        b2 = PreferenceInterval({**{c: G.fl(v) for c, v in case["b"].items()},
                                 sh: 0.0 if ok_kind in ("zero_in_second", "zero_in_both") else 0.5})
        ivs, props = [a2, b2], [0.25, 0.75]
        if case.get("third_at") is not None:
            c3 = PreferenceInterval({c: G.fl(v) for c, v in case["c"].items()})
            ivs.insert(case["third_at"], c3)
            props = [0.25, 0.5, 0.25]
            v3, exc3, _ = E.call(combine_preference_intervals, [a, c3, b], props)
            if exc3 is not None:
                out.fail(kind, f"valid_rejected_{type(exc3).__name__}", f"three disjoint intervals: {exc3!r}")
        expect_raise(out, kind, lambda: combine_preference_intervals(ivs, props), (ValueError,),
                     f"candidate {sh} listed in two of {len(ivs)} intervals ({ok_kind}, third interval at {case.get('third_at')})")
        expect_raise(out, kind, lambda: combine_preference_intervals([a, b], [0.25, 0.75 + 1e-6]), (ValueError,),
                     "proportions summing to 1+1e-6")
        nt = True
    elif kind == "duplicate_candidates":
        cands, bl = case["cands"], case["ballots"]
        C.mk_profile(bl, cands)
        dup = list(cands)
        dup.insert(case["at"], cands[case["dup"]])
        expect_raise(out, kind, lambda: C.mk_profile(bl, dup), (ValueError,), f"candidates {dup}")
        nt = abs(case["at"] - case["dup"]) > 1
    out.nontrivial = nt
    if nt:
        out.labels.insert(0, f"nt:{kind}")
    return out
