"""C10 - randomness is used only to break genuine ties, and every tiebreak is recorded."""

from __future__ import annotations

from fractions import Fraction

from hypothesis import strategies as st

from .. import cases as C
from .. import elect as E
from .. import strategies as S
from ..ref import pairwise as refp
from ..ref import scoring as refs
from ..ref import stv as refstv
from ..run import Outcome
from . import c01

ID = "C10"
BUDGET = {"quick": 12000, "thorough": 160000}
FUZZ = {"thorough": 4000}  # coverage-guided stage: libFuzzer runs per worker (x16), see vk/fuzz.py
DETERMINISTIC_RULES = ["STV", "IRV", "SequentialRCV", "Plurality", "SNTV", "Borda", "TopTwo", "Alaska",
                       "DominatingSets", "CondoBorda", "Rating", "Limited", "Cumulative", "Approval",
                       "BlocPlurality"]
RULE = (
    "Hypothesis: tie-rich and ordinary profiles (as in C01, fractional transfer only) x every rule "
    "other than the intentionally random ones x tiebreak in {None, random, borda, first_place} x "
    "THREE random layers per case (the generated seed-or-script, the all-zeros script, the "
    "all-999 script).  (a) if the first run records no tiebreak all three outcomes are identical; "
    "(b) every recorded tiebreak is judged against independently computed tallies: genuine tie, at "
    "the seat boundary or the elimination end, resolution a strict order of exactly that set which "
    "the round's groups obey, and no unrecorded tie decision; (c) borda / first_place resolutions "
    "are non-increasing in that score of the profile in hand.  One case in ten is PluralityVeto on "
    "ballots with tied positions: each recorded set must be some voter's tied last place in the "
    "profile in hand and its resolution a strict order of exactly that set, non-increasing in the "
    "tiebreak score.  Non-trivial = a run with >= 1 recorded "
    "tiebreak, or a profile with a score tie that does NOT straddle the boundary.  Distinct = SHA-1."
)
ASSUMPTIONS = [
    "random_transfer is an intentionally random rule and is excluded; RandomDictator, "
    "BoostedRandomDictator and PluralityVeto likewise (for PluralityVeto only the tiebreak records are judged)",
    "the deciding tally of a round is the previous round's recorded scores (tier membership for CondoBorda)",
]

WEIGHTED = ["STV"] * 4 + ["IRV"] * 2 + ["SequentialRCV"] * 2 + ["Alaska"] * 3 + ["TopTwo"] * 2 + [
    "Plurality", "SNTV", "Borda", "Borda", "CondoBorda", "CondoBorda", "DominatingSets", "Rating",
    "Limited", "Cumulative", "Approval", "BlocPlurality"]


@st.composite
def case(draw):
    if draw(st.integers(0, 9)) == 0:
        # PluralityVeto's voter order is random by design, but what it records when a voter's last
        # place is tied is a tiebreak record like any other
        cands = draw(S.cand_names(3, 5, odd=False))
        shared = draw(S.tied_ranking(cands, min_len=len(cands)))
        bl = []
        for _ in range(draw(st.integers(2, 6))):
            r = shared if draw(st.integers(0, 2)) == 0 else draw(S.tied_ranking(cands, min_len=2))
            bl.append({"r": r, "w": draw(st.integers(1, 2))})
        return {"kind": "veto_records", "rule": "PluralityVeto", "cands": cands, "ballots": bl,
                "cfg": {"m": draw(st.integers(1, len(cands) - 1)),
                        "tiebreak": draw(st.sampled_from(["random", "borda", "first_place"]))},
                "rng": draw(S.rng_spec())}
    base = draw(c01.case(rules=WEIGHTED))
    if base["cfg"].get("transfer") == "random":
        base["cfg"]["transfer"] = "fractional"
    return base


def strategy(tier):
    return case()


def plain(profile):
    """votekit profile -> plain ballots + candidate list."""
    bl = []
    for b in profile.ballots:
        if b.ranking:
            bl.append({"r": [sorted(str(c) for c in s) for s in b.ranking], "w": C.enc(b.weight)})
    return bl, [str(c) for c in profile.candidates]


def tb_scores(kind, profile):
    bl, cands = plain(profile)
    if kind == "borda":
        return refs.borda(bl, cands)
    return refs.first_place(bl, cands)


def groups_of(scores):
    return refs.ranking_from_scores({c: C.frac(v) for c, v in scores.items()})


def check_resolution(out, where, K, res):
    flat = [c for g in res for c in g]
    if any(len(g) != 1 for g in res) or sorted(flat) != sorted(K) or len(K) < 2:
        out.fail("record", "not_a_strict_order_of_the_tied_set", f"{where}: tied set {K}, resolution {res}")
        return None
    return flat


def check_order(out, where, flat, kind, profile):
    if kind not in ("borda", "first_place") or profile is None:
        return
    sc = tb_scores(kind, profile)
    vals = [sc.get(c) for c in flat]
    if any(v is None for v in vals):
        return
    if any(vals[i] < vals[i + 1] for i in range(len(vals) - 1)):
        out.fail("order", f"{kind}_not_descending", f"{where}: resolution {flat} has {kind} scores {vals}")


def judge_one_shot(out, where, prev_scores_groups, m, state, chosen, tb, profile, tb_kind):
    """One round that takes the top m of `prev_scores_groups`; `chosen` = the candidates taken."""
    cnt, g = 0, None
    for grp in prev_scores_groups:
        if cnt < m < cnt + len(grp):
            g = grp
            break
        cnt += len(grp)
    recs = state["tiebreaks"]
    if g is None:
        if recs:
            out.fail("record", "tiebreak_without_boundary_tie", f"{where}: groups {prev_scores_groups}, m={m}, recorded {recs}")
        return False
    if not recs:
        out.fail("record", "boundary_tie_not_recorded", f"{where}: {g} straddle seat {m}, nothing recorded; chosen {chosen}")
        return True
    if len(recs) != 1 or recs[0][0] != sorted(g):
        out.fail("record", "wrong_tied_set", f"{where}: straddling group {sorted(g)}, recorded {recs}")
        return True
    flat = check_resolution(out, where, sorted(g), recs[0][1])
    if flat is None:
        return True
    need = m - cnt
    if set(chosen) & set(g) != set(flat[:need]):
        out.fail("record", "groups_disobey_resolution", f"{where}: resolution {flat}, {need} seats for the tied set, chosen {sorted(set(chosen) & set(g))}")
    check_order(out, where, flat, tb_kind, profile)
    return True


def judge_stv_round(out, where, prev, state, thr, simultaneous, tb, profile_in, profile0):
    scores = {c: C.frac(v) for c, v in prev["scores"].items()}
    if not scores:
        return False
    grp = groups_of(scores)
    elected = [c for g in state["elected"] for c in g]
    elim = [c for g in state["eliminated"] for c in g]
    recs = state["tiebreaks"]
    top, low = grp[0], grp[-1]
    tie = False
    if elim:
        if len(low) > 1:
            tie = True
            if len(recs) != 1 or recs[0][0] != sorted(low):
                out.fail("record", "elimination_tie_not_recorded", f"{where}: lowest group {low}, eliminated {elim}, recorded {recs}")
                return True
            flat = check_resolution(out, where, sorted(low), recs[0][1])
            if flat is not None:
                if elim != [flat[-1]]:
                    out.fail("record", "groups_disobey_resolution", f"{where}: resolution {flat}, eliminated {elim}")
                check_order(out, where, flat, "first_place", profile0)
        elif recs:
            out.fail("record", "tiebreak_without_tie", f"{where}: lowest group {low} is a single candidate, recorded {recs}")
    elif elected and scores[top[0]] >= thr:
        if not simultaneous and len(top) > 1:
            tie = True
            if len(recs) != 1 or recs[0][0] != sorted(top):
                out.fail("record", "election_tie_not_recorded", f"{where}: highest group {top}, elected {elected}, recorded {recs}")
                return True
            flat = check_resolution(out, where, sorted(top), recs[0][1])
            if flat is not None:
                if elected != [flat[0]]:
                    out.fail("record", "groups_disobey_resolution", f"{where}: resolution {flat}, elected {elected}")
                check_order(out, where, flat, tb, profile_in)
        elif recs:
            out.fail("record", "tiebreak_without_tie", f"{where}: elected {elected}, recorded {recs}")
    elif recs:
        out.fail("record", "tiebreak_without_tie", f"{where}: default election, recorded {recs}")
    return tie


def judge(out, case, res, prof):
    rule, cfg, cands, ballots = case["rule"], case["cfg"], case["cands"], case["ballots"]
    tb = cfg.get("tiebreak")
    states = res.states
    m = cfg.get("m", 1)
    tie_decided = False
    step_in = {st_.round_number: p for p, st_ in res.step_in}
    if rule in ("Plurality", "SNTV", "Borda") or rule in E.SCORE_RULES:
        chosen = [c for g in states[1]["elected"] for c in g]
        tie_decided = judge_one_shot(out, f"{rule} round 1", groups_of(states[0]["scores"]), m, states[1], chosen,
                                     tb, prof if rule not in E.SCORE_RULES else None, tb)
    elif rule == "CondoBorda":
        tiers = refp.tiers(cands, refp.margins(ballots, cands))
        chosen = [c for g in states[1]["elected"] for c in g]
        tie_decided = judge_one_shot(out, "CondoBorda round 1", tiers, m, states[1], chosen, "borda", prof, "borda")
    elif rule == "DominatingSets":
        if states[1]["tiebreaks"]:
            out.fail("record", "tiebreak_without_tie", f"DominatingSets recorded {states[1]['tiebreaks']}")
    elif rule in ("TopTwo", "Alaska"):
        m1 = 2 if rule == "TopTwo" else cfg["m_1"]
        fin = [c for g in states[1]["remaining"] for c in g]
        tie_decided = judge_one_shot(out, f"{rule} round 1", groups_of(states[0]["scores"]), m1, states[1], fin, tb, prof, tb)
        if rule == "TopTwo" and len(states) > 2:
            chosen = [c for g in states[2]["elected"] for c in g]
            t2 = judge_one_shot(out, "TopTwo round 2", groups_of(states[1]["scores"]), 1, states[2], chosen, tb,
                                step_in.get(1), tb)
            tie_decided = tie_decided or t2
        if rule == "Alaska" and len(states) > 2:
            tot = sum((C.frac(v) for v in states[1]["scores"].values()), Fraction(0))
            thr = refstv.threshold(tot, cfg["m_2"], cfg.get("quota", "droop"))
            if thr > 0:
                for i in range(2, len(states)):
                    t = judge_stv_round(out, f"Alaska round {i}", states[i - 1], states[i], thr,
                                        cfg.get("simultaneous", True), tb, None, None)
                    tie_decided = tie_decided or t
    else:  # STV family
        thr = refstv.threshold(prof.total_ballot_wt, m, cfg.get("quota", "droop"))
        if thr > 0:
            for i in range(1, len(states)):
                t = judge_stv_round(out, f"{rule} round {i}", states[i - 1], states[i], thr,
                                    cfg.get("simultaneous", True), tb, step_in.get(i - 1), prof)
                tie_decided = tie_decided or t
    return tie_decided


def has_inner_tie(case):
    """A score tie somewhere that does not straddle the boundary (first-place scores)."""
    if case["rule"] in E.SCORE_RULES:
        sc = c01.score_totals(case["ballots"], case["cands"])
    else:
        sc = refs.first_place(case["ballots"], case["cands"])
    m = case["cfg"].get("m", 1)
    return any(len(g) > 1 for g in refs.ranking_from_scores(sc)) and c01.straddle(sc, m) is None


def check_veto_records(case):
    out = Outcome()
    cfg = case["cfg"]
    tb = cfg["tiebreak"]
    out.label("rule=PluralityVeto", f"tb={tb}")
    prof = C.mk_profile(case["ballots"], case["cands"])
    res = E.run("PluralityVeto", prof, cfg, case["rng"], record_steps=True)
    if res.exc is not None or not res.states:
        out.label("raised")  # termination / exceptions are C01's subject
        return out
    step_in = {st_.round_number: p for p, st_ in res.step_in}
    n_rec = 0
    for i, state in enumerate(res.states):
        for K, resolution in state["tiebreaks"]:
            n_rec += 1
            where = f"PluralityVeto {cfg} round {i}"
            pin = step_in.get(i - 1)
            if pin is not None:
                lasts = {tuple(sorted(str(c) for c in b.ranking[-1])) for b in pin.ballots if b.ranking and len(b.ranking[-1]) > 1}
                if tuple(K) not in lasts:
                    out.fail("record", "tied_set_is_no_voters_last_place", f"{where}: recorded set {K}, tied last places in hand {sorted(lasts)}")
                    return out
            flat = check_resolution(out, where, K, resolution)
            if flat is None:
                return out
            check_order(out, where, flat, tb, pin)
    out.nontrivial = n_rec > 0
    if out.nontrivial:
        out.labels.insert(0, "nt:PluralityVeto:recorded")
    return out


def check(case):
    if case.get("kind") == "veto_records":
        return check_veto_records(case)
    out = Outcome()
    rule, cfg = case["rule"], case["cfg"]
    prof = C.mk_profile(case["ballots"], case["cands"])
    tb = cfg.get("tiebreak")
    out.label(f"rule={rule}", f"tb={tb}")
    layers = [case["rng"], {"seed": 1, "script": [0] * 40}, {"seed": 2, "script": [999] * 40}]
    runs = [E.run(rule, prof, cfg, L, record_steps=True) for L in layers]
    first = runs[0]
    sigs = []
    for r in runs:
        sigs.append(("exc", r.exc_type) if r.exc is not None else ("ok", C.canon(r.states)))
    any_record = any(r.states and any(s["tiebreaks"] for s in r.states) for r in runs)
    # (a) seed independence unless a tiebreak is recorded
    if not any_record and all(r.exc is None for r in runs):
        if len(set(sigs)) != 1:
            out.fail("seed_independence", "outcomes_differ",
                     f"{rule} {cfg}: no tiebreak recorded yet outcomes differ across random layers: "
                     f"{[r.states[-1] for r in runs]}")
        if any(r.draws for r in runs):
            out.label("draws_without_record")
            # randomness drawn although nothing was tied: must not matter (checked above) -- and a
            # draw with no recorded tiebreak means an unrecorded decision unless the outcome is fixed
    if all(r.exc is not None for r in runs) and len({s for s in sigs}) != 1:
        out.label("exception_types_differ")
    tie_decided = False
    for r in runs:
        if r.exc is None and r.states:
            tie_decided = judge(out, case, r, prof) or tie_decided
            if out.fails:
                break
    recorded = any(r.exc is None and any(s["tiebreaks"] for s in r.states) for r in runs)
    inner = has_inner_tie(case)
    if recorded:
        out.label("tiebreak_recorded")
    if inner:
        out.label("non_boundary_tie")
    out.nontrivial = recorded or inner
    if out.nontrivial:
        out.labels.insert(0, f"nt:{rule}:{'recorded' if recorded else 'inner'}")
    return out
