"""C08 - outcomes are neutral, anonymous and independent of representation and hash seed."""

from __future__ import annotations

import json
import os
import subprocess
import sys
import tempfile
from fractions import Fraction

from hypothesis import strategies as st

from .. import cases as C
from .. import elect as E
from .. import strategies as S
from ..ref import scoring as refs
from ..run import Outcome
from . import c01, c10

ID = "C08"
BUDGET = {"quick": 6000, "thorough": 80000}
FUZZ = {"thorough": 4000}  # coverage-guided stage: libFuzzer runs per worker (x16), see vk/fuzz.py
RULE = (
    "Hypothesis: (rule other than the intentionally random ones, profile, configuration) as in "
    "C01/C10 plus a generated TRANSFORMATION: a candidate bijection onto names whose sort order and "
    "hash order differ, a ballot permutation, splitting ballots into 2-3 identical ballots whose "
    "weights add up, merging identical ballots, and a permutation of the declared candidate list.  "
    "Every round of the transformed run (and the scoring utilities / pairwise graph) must equal the "
    "renamed original; compared only when neither run drew a random number.  extra: a batch of "
    "generated cases is evaluated in fresh interpreters started with PYTHONHASHSEED 1, 2 and 3 and "
    "compared with the parent's (hash seed 0) serialised outcomes.  Non-trivial = a score tie that "
    "is not at the boundary, or a zero-vote candidate, or >= 3 candidates whose sort order changes "
    "under the renaming.  Distinct = SHA-1 of canonical case JSON."
)
ASSUMPTIONS = [
    "pairs in which either run drew a random number or recorded a tiebreak are skipped (counted)",
    "the hash-seed clause samples hash seeds 0-3",
]

NAME_POOL = S.PLAIN + S.ODD + ["zz", "Y", "b2", "Éa", "_", "M m", "k9", "AA", "aB"]


@st.composite
def case(draw):
    base = draw(c10.case())
    cands = base["cands"]
    n = len(cands)
    if draw(st.integers(0, 4)) == 0:
        ren = {c: c for c in cands}
    else:
        new = draw(st.lists(st.sampled_from(NAME_POOL), min_size=n, max_size=n, unique=True))
        ren = dict(zip(cands, new))
    score_rule = base["rule"] in E.SCORE_RULES
    src = list(draw(st.permutations(base["ballots"])))
    out = []
    for b in src:
        nb = dict(b)
        if score_rule:
            nb["s"] = {ren[c]: v for c, v in b["s"].items()}
        else:
            nb["r"] = [sorted(ren[c] for c in p) for p in b["r"]]
        k = draw(st.sampled_from([1, 1, 2, 3]))
        if k == 1:
            out.append(nb)
        else:
            parts = draw(st.lists(st.integers(1, 4), min_size=k, max_size=k))
            tot = sum(parts)
            w = C.frac(b["w"])
            for p in parts:
                out.append({**nb, "w": C.enc(w * p / tot)})
    if draw(st.booleans()):
        # merge identical ballots
        acc, order = {}, []
        for b in out:
            key = json.dumps(b.get("r") or b.get("s"), sort_keys=True)
            if key in acc:
                acc[key]["w"] = C.enc(C.frac(acc[key]["w"]) + C.frac(b["w"]))
            else:
                acc[key] = dict(b)
                order.append(key)
        out = [acc[k] for k in order]
    out = list(draw(st.permutations(out)))
    cands2 = list(draw(st.permutations([ren[c] for c in cands])))
    base["T"] = {"ren": ren, "ballots": out, "cands": cands2}
    return base


def strategy(tier):
    return case()


def rename_states(states, ren):
    def g(groups):
        return [sorted(ren[c] for c in grp) for grp in groups]

    out = []
    for s in states:
        out.append({
            "round": s["round"], "elected": g(s["elected"]), "eliminated": g(s["eliminated"]),
            "remaining": g(s["remaining"]),
            "scores": {ren[c]: v for c, v in sorted(s["scores"].items())},
            "tiebreaks": sorted([[sorted(ren[c] for c in k), g(v)] for k, v in s["tiebreaks"]]),
        })
    return out


def _canon_states(states):
    return [{**s, "scores": dict(sorted(s["scores"].items()))} for s in states]


def outcome(case, which="orig"):
    """Serialised observable outcome of one side of a case (used by the hash-seed workers too)."""
    import votekit.utils as U

    rule, cfg = case["rule"], case["cfg"]
    if which == "orig":
        cands, ballots = case["cands"], case["ballots"]
    else:
        cands, ballots = case["T"]["cands"], case["T"]["ballots"]
    prof = C.mk_profile(ballots, cands)
    res = E.run(rule, prof, cfg, {"seed": case["rng"].get("seed", 0)})
    o = {"exc": res.exc_type, "draws": res.draws,
         "states": _canon_states(res.states) if res.exc is None else None}
    if rule not in E.SCORE_RULES:
        for fn in ("first_place_votes", "borda_scores", "mentions"):
            v, exc, _ = E.call(getattr(U, fn), prof)
            o[fn] = type(exc).__name__ if exc is not None else {str(c): C.enc(x) for c, x in sorted(v.items())}
        untied = all(len(p) == 1 for b in ballots for p in b["r"])
        if untied and len(cands) <= 5:
            from votekit.graphs import PairwiseComparisonGraph

            g, exc, _ = E.call(PairwiseComparisonGraph, prof)
            if exc is None:
                o["pairwise"] = sorted([[str(a), str(b), C.enc(v)] for (a, b), v in g.pairwise_dict.items()])
                o["tiers"] = [sorted(str(c) for c in t) for t in g.dominating_tiers()]
            else:
                o["pairwise"] = type(exc).__name__
    return o


def _child_outcome(case, hs):
    tmp = tempfile.mkdtemp(prefix="vk-c08-")
    try:
        fin, fout = os.path.join(tmp, "in.json"), os.path.join(tmp, "out.json")
        json.dump([case], open(fin, "w"))
        subprocess.run([sys.executable, "-c", "import sys; from vk.props.c08 import worker_main; worker_main(sys.argv[1:])", fin, fout],
                       env=dict(os.environ, PYTHONHASHSEED=str(hs)), check=True, capture_output=True)
        return json.load(open(fout))[0]
    finally:
        import shutil

        shutil.rmtree(tmp, ignore_errors=True)


def check(case):
    out = Outcome()
    if "hashseed" in case:  # replay of a hash-seed finding: compare with a fresh interpreter
        c = {k: v for k, v in case.items() if k != "hashseed"}
        a = _outcomes_of([c])[0]
        b = _child_outcome(c, case["hashseed"])
        if a != b:
            out.fail("hash_seed", "outcome_differs", f"PYTHONHASHSEED=0 vs {case['hashseed']}: {a[:500]} vs {b[:500]}")
        return out
    ren = case["T"]["ren"]
    rule = case["rule"]
    out.label(f"rule={rule}")
    a = outcome(case, "orig")
    b = outcome(case, "T")
    if a["exc"] != b["exc"]:
        if a["draws"] or b["draws"]:
            out.label("skipped_random")
        else:
            out.fail("metamorphic", "exception_differs", f"{rule} {case['cfg']}: original {a['exc']}, transformed {b['exc']}")
    elif a["exc"] is None:
        recorded = any(s["tiebreaks"] for s in a["states"]) or any(s["tiebreaks"] for s in b["states"])
        if a["draws"] or b["draws"] or recorded:
            out.label("skipped_random")
        else:
            want = _canon_states(rename_states(a["states"], ren))
            if want != b["states"]:
                k = next((i for i, (x, y) in enumerate(zip(want, b["states"])) if x != y), min(len(want), len(b["states"])))
                out.fail("metamorphic", "rounds_differ",
                         f"{rule} {case['cfg']}: round {k}: renamed original "
                         f"{want[k] if k < len(want) else None} vs transformed {b['states'][k] if k < len(b['states']) else None}")
    for fn in ("first_place_votes", "borda_scores", "mentions"):
        if fn in a:
            want = a[fn] if isinstance(a[fn], str) else dict(sorted((ren[c], v) for c, v in a[fn].items()))
            if want != b[fn]:
                out.fail("metamorphic_utils", fn, f"renamed original {want} vs transformed {b[fn]}")
    if "pairwise" in a and "pairwise" in b and not isinstance(a["pairwise"], str):
        wa = {}
        for x, y, v in a["pairwise"]:
            wa[(ren[x], ren[y])] = v
        wb = {(x, y): v for x, y, v in b["pairwise"]} if not isinstance(b["pairwise"], str) else b["pairwise"]
        if wa != wb:
            out.fail("metamorphic_utils", "pairwise_dict", f"renamed original {wa} vs transformed {wb}")
        ta = [sorted(ren[c] for c in t) for t in a["tiers"]]
        if ta != b.get("tiers"):
            out.fail("metamorphic_utils", "dominating_tiers", f"{ta} vs {b.get('tiers')}")
    # non-trivial
    cands = case["cands"]
    zero = False
    if rule not in E.SCORE_RULES:
        zero = len({c for bl in case["ballots"] for p in bl["r"] for c in p}) < len(cands)
    inner = c10.has_inner_tie(case)
    srt = sorted(cands)
    srt2 = sorted(cands, key=lambda c: ren[c])
    moved = sum(1 for x, y in zip(srt, srt2) if x != y) >= 3
    for lab, on in (("zero_vote_candidate", zero), ("non_boundary_tie", inner), ("sort_order_changes", moved)):
        if on:
            out.label(lab)
    out.nontrivial = zero or inner or moved
    return out


# ---- hash-seed independence: fresh interpreters with PYTHONHASHSEED 1, 2, 3 -----------------------


def _collect_cases(seed, n):
    import hypothesis
    from hypothesis import HealthCheck, Phase, given, settings

    got = []

    @hypothesis.seed(seed * 31 + 7)
    @settings(max_examples=n, database=None, deadline=None, phases=[Phase.generate],
              suppress_health_check=list(HealthCheck))
    @given(case())
    def collect(c):
        got.append(c)

    collect()
    return got


def _outcomes_of(cases_):
    res = []
    for c in cases_:
        try:
            o = outcome(c, "orig")
            o2 = outcome(c, "T")
            res.append(C.canon([o, o2]))
        except Exception as exc:  # noqa: BLE001
            res.append("HARNESS:" + repr(exc))
    return res


def worker_main(argv):
    """Entry of the child interpreters: vk.props.c08 <infile> <outfile>."""
    from ..main import guard_import

    guard_import()
    cases_ = json.load(open(argv[0]))
    json.dump(_outcomes_of(cases_), open(argv[1], "w"))


def extra(tier, seed, pool):
    n = 640 if tier == "quick" else 3200
    cases_ = _collect_cases(seed, n)
    nchunks = 5
    chunks = [cases_[i::nchunks] for i in range(nchunks)]
    parent = pool.map(_outcomes_of, chunks)
    tmp = tempfile.mkdtemp(prefix="vk-c08-")
    procs = []
    try:
        seeds = (1, 2, 3) if tier == "quick" else (1, 2, 3, 4, 5, 6, 7)
        for hs in seeds:
            for i, ch in enumerate(chunks):
                fin = os.path.join(tmp, f"in{i}.json")
                if not os.path.exists(fin):
                    json.dump(ch, open(fin, "w"))
                fout = os.path.join(tmp, f"out{hs}_{i}.json")
                env = dict(os.environ, PYTHONHASHSEED=str(hs))
                procs.append((hs, i, fout, subprocess.Popen(
                    [sys.executable, "-c", "import sys; from vk.props.c08 import worker_main; worker_main(sys.argv[1:])", fin, fout],
                    env=env, stdout=subprocess.DEVNULL, stderr=subprocess.PIPE)))
        fails, herr = [], []
        compared = 0
        for hs, i, fout, p in procs:
            _, err = p.communicate()
            if p.returncode != 0:
                herr.append({"case": None, "trace": f"hash-seed worker {hs}/{i} failed: {err.decode()[-1500:]}"})
                continue
            child = json.load(open(fout))
            for c, a, b in zip(chunks[i], parent[i], child):
                compared += 1
                if a.startswith("HARNESS:") or b.startswith("HARNESS:"):
                    herr.append({"case": c, "trace": a if a.startswith("HARNESS:") else b})
                    continue
                if a != b:
                    oa, ob = json.loads(a), json.loads(b)
                    drew = any(o["draws"] or (o["states"] and any(s["tiebreaks"] for s in o["states"])) for o in oa + ob)
                    # outcomes that involve a random draw may legitimately depend on set order
                    strip = lambda o: {k: v for k, v in o.items() if k not in ("states", "draws", "exc")}  # noqa: E731
                    if drew and [strip(o) for o in oa] == [strip(o) for o in ob]:
                        continue
                    fails.append((dict(c, hashseed=hs), [{
                        "subcheck": "hash_seed", "failure": "outcome_differs", "callee": None,
                        "detail": f"PYTHONHASHSEED=0 vs {hs}: {a[:600]} ... vs ... {b[:600]}"}]))
        return {"evaluations": compared, "fails": fails[:5], "harness_errors": herr[:3],
                "coverage": {"hash_seed_cases": len(cases_), "hash_seeds": [0] + list(seeds),
                             "hash_seed_comparisons": compared}}
    finally:
        import shutil

        shutil.rmtree(tmp, ignore_errors=True)
