"""C06 - pairwise comparison, dominating tiers and Condorcet consistency."""

from __future__ import annotations

from fractions import Fraction

from hypothesis import strategies as st

from .. import cases as C
from .. import elect as E
from .. import strategies as S
from ..ref import pairwise as refp
from ..ref import scoring as refs
from ..run import Outcome

ID = "C06"
BUDGET = {"quick": 16000, "thorough": 200000}
FUZZ = {"thorough": 6000}  # coverage-guided stage: libFuzzer runs per worker (x16), see vk/fuzz.py
RULE = (
    "Hypothesis: profile of 1-8 untied ballots over 1-5 (sometimes 6) declared candidates: "
    "partial ballots (filled by the library with all completions), int or p/q weights, zero-vote "
    "candidates, mirrored rankings and equal-weight rotations of a cycle (Condorcet cycles in and "
    "below the top tier, pairwise ties) x m.  Oracle: margins from the definition; dominating "
    "tiers by brute force over all candidate subsets.  Non-trivial = top tier of size >= 3, or a "
    "lower tier of size >= 3 (cycle below the top), or a pairwise tie, or a partial ballot that "
    "leaves >= 2 candidates unlisted.  The tiers / has-winner / winner queries are then repeated "
    "on the same graph object in a generated order and judged against the same definitions.  Distinct = SHA-1 of canonical case JSON."
)
ASSUMPTIONS = [
    "ballots are untied; two candidates a ballot does not list contribute 0 to their margin",
    "CondoBorda's Borda scores are those of the given profile (positional definition of C04)",
]


@st.composite
def case(draw):
    big = draw(st.integers(0, 7)) == 0
    prof = draw(S.ranked_profile(1, 6 if big else 5, 8, tied=False,
                                 tie_rich=draw(st.integers(0, 1)) == 0))
    cands = prof["cands"]
    ballots = prof["ballots"]
    if draw(st.integers(0, 2)) == 0 and len(cands) >= 4:
        # nested structure: a cycle among the last three candidates below a separate top
        low = cands[-3:]
        top = cands[:-3]
        w = draw(st.integers(1, 3))
        extra = []
        for i in range(3):
            rot = low[i:] + low[:i]
            extra.append({"r": [[c] for c in list(draw(st.permutations(top))) + rot], "w": w})
        ballots = (ballots + extra)[-8:]
    return {"cands": cands, "ballots": ballots, "m": draw(st.integers(1, len(cands))),
            "rng": draw(S.rng_spec()),
            # the same graph object is asked again, in this order (answers are properties of the
            # profile, so they may not depend on what was asked before)
            "again": list(draw(st.permutations(["tiers", "has", "winner", "tiers", "winner"])))}


def strategy(tier):
    return case()


def check(case):
    from votekit.graphs import PairwiseComparisonGraph

    out = Outcome()
    cands, ballots, m = case["cands"], case["ballots"], case["m"]
    n = len(cands)
    prof = C.mk_profile(ballots, cands)
    marg = refp.margins(ballots, cands)
    tiers = refp.tiers(cands, marg)
    cw = refp.condorcet_winner(cands, marg)

    g, exc, _ = E.call(PairwiseComparisonGraph, prof)
    if exc is not None:
        out.fail("graph", type(exc).__name__, repr(exc))
        return out
    # ---- pairwise_dict -------------------------------------------------------------------------
    want = {}
    for a in cands:
        for b in cands:
            if a < b or a > b:
                if a != b and marg[(a, b)] > 0:
                    want[(a, b)] = marg[(a, b)]
                elif a != b and marg[(a, b)] == 0:
                    want[(a, b)] = Fraction(0)
    got = {(str(a), str(b)): Fraction(v) for (a, b), v in g.pairwise_dict.items()}
    if got != want:
        diff = {k: (got.get(k), want.get(k)) for k in set(got) | set(want) if got.get(k) != want.get(k)}
        out.fail("pairwise_dict", "margins", f"(pair: got, definition) {diff}")
    if sorted(map(str, g.candidates)) != sorted(cands):
        out.fail("graph", "candidates", f"{g.candidates} vs {cands}")
    # ---- tiers ------------------------------------------------------------------------------------
    gt, exc, _ = E.call(g.dominating_tiers)
    if exc is not None:
        out.fail("dominating_tiers", type(exc).__name__, repr(exc))
        return out
    gtl = [sorted(str(c) for c in t) for t in gt]
    if gtl != tiers:
        out.fail("dominating_tiers", "tiers", f"got {gtl}, brute force over subsets gives {tiers}; margins {marg}")
    has = g.has_condorcet_winner()
    if bool(has) != (cw is not None):
        out.fail("condorcet", "has_condorcet_winner", f"{has} but Condorcet winner by definition is {cw}")
    try:
        w = g.get_condorcet_winner()
        if cw is None or str(w) != cw:
            out.fail("condorcet", "get_condorcet_winner", f"returned {w}, definition gives {cw}")
    except ValueError:
        if cw is not None:
            out.fail("condorcet", "get_condorcet_winner_raises", f"raised although {cw} beats everyone")
    if (len(tiers[0]) == 1) != (cw is not None):
        out.fail("oracle", "self_check", "brute-force tiers and Condorcet definition disagree")  # guards the oracle
    asked = ["tiers", "has", "winner"]
    for q in case.get("again", ["winner", "tiers", "has"]):
        if out.fails:
            break
        if q == "tiers":
            gt2, exc, _ = E.call(g.dominating_tiers)
            got2 = None if exc is not None else [sorted(str(c) for c in t) for t in gt2]
            if got2 != tiers:
                out.fail("dominating_tiers", "tiers_when_asked_again",
                         f"after {asked}: got {got2 if exc is None else repr(exc)}, brute force gives {tiers}")
        elif q == "has":
            if bool(g.has_condorcet_winner()) != (cw is not None):
                out.fail("condorcet", "has_condorcet_winner_when_asked_again", f"after {asked}: definition gives {cw}")
        else:
            try:
                w = g.get_condorcet_winner()
                if cw is None or str(w) != cw:
                    out.fail("condorcet", "get_condorcet_winner_when_asked_again", f"after {asked}: returned {w}, definition gives {cw}")
            except ValueError:
                if cw is not None:
                    out.fail("condorcet", "get_condorcet_winner_when_asked_again", f"after {asked}: raised although {cw} beats everyone")
        asked.append(q)

    # ---- DominatingSets -----------------------------------------------------------------------
    res = E.run("DominatingSets", prof, {}, case["rng"])
    if res.exc is not None:
        out.fail("DominatingSets", res.exc_type, repr(res.exc), callee=res.frame)
    else:
        last = res.states[-1]
        if last["elected"] != [tiers[0]]:
            out.fail("DominatingSets", "elected", f"elected {last['elected']}, top tier {tiers[0]}")
        if last["remaining"] != tiers[1:]:
            out.fail("DominatingSets", "remaining", f"remaining {last['remaining']}, lower tiers {tiers[1:]}")
        if res.draws:
            out.fail("DominatingSets", "random_draw", f"{res.log}")
    # ---- CondoBorda -------------------------------------------------------------------------------
    res = E.run("CondoBorda", prof, {"m": m}, case["rng"])
    borda = refs.borda(ballots, cands)
    if res.exc is not None:
        out.fail("CondoBorda", res.exc_type, repr(res.exc), callee=res.frame)
    else:
        elected = [c for g_ in res.states[-1]["elected"] for c in g_]
        if len(elected) != m or len(set(elected)) != m:
            out.fail("CondoBorda", "winner_count", f"m={m}: {res.states[-1]['elected']}")
        cnt = 0
        for t in tiers:
            if cnt + len(t) <= m:
                if not set(t) <= set(elected):
                    out.fail("CondoBorda", "whole_tier_not_taken", f"m={m}: tier {t} fits but elected {elected}")
                cnt += len(t)
            else:
                chosen = [c for c in t if c in elected]
                unchosen = [c for c in t if c not in elected]
                if len(chosen) != m - cnt:
                    out.fail("CondoBorda", "straddling_tier_count", f"m={m}: {len(chosen)} of tier {t} elected, {m - cnt} seats left")
                elif chosen and unchosen and min(borda[c] for c in chosen) < max(borda[c] for c in unchosen):
                    out.fail("CondoBorda", "borda_order_in_tier", f"tier {t}: chosen {chosen}, unchosen {unchosen}, Borda {borda}")
                lower = [c for tt in tiers[tiers.index(t) + 1:] for c in tt]
                if set(lower) & set(elected):
                    out.fail("CondoBorda", "lower_tier_elected", f"{set(lower) & set(elected)} elected from below tier {t}")
                break
        # elected groups are listed tier by tier
        pos = {c: i for i, t in enumerate(tiers) for c in t}
        seq = [pos[c] for g_ in res.states[-1]["elected"] for c in g_]
        if seq != sorted(seq):
            out.fail("CondoBorda", "elected_order", f"elected {res.states[-1]['elected']} not in tier order {tiers}")
        rem = [pos[c] for g_ in res.states[-1]["remaining"] for c in g_]
        if rem != sorted(rem):
            out.fail("CondoBorda", "remaining_order", f"remaining {res.states[-1]['remaining']} not in tier order {tiers}")

    # ---- non-trivial -----------------------------------------------------------------------------
    tie = any(v == 0 for v in marg.values())
    partial = any(n - len(b["r"]) >= 2 for b in ballots)
    if len(tiers[0]) >= 3:
        out.label("top_tier>=3")
    if any(len(t) >= 3 for t in tiers[1:]):
        out.label("cycle_below_top")
    if tie:
        out.label("pairwise_tie")
    if partial:
        out.label("partial_fill")
    out.nontrivial = len(tiers[0]) >= 3 or any(len(t) >= 3 for t in tiers[1:]) or tie or partial
    return out
