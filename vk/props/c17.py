"""C17 - randomised rules and random tiebreaks draw from the documented distributions."""

from __future__ import annotations

import itertools
import random as _random
from fractions import Fraction

from hypothesis import strategies as st

from .. import cases as C
from .. import elect as E
from .. import rng as R
from .. import stats
from .. import strategies as S
from ..ref import scoring as refs
from ..run import Outcome

ID = "C17"
BUDGET = {"quick": 6000, "thorough": 60000}
RULE = (
    "Two parts.  (validity, Hypothesis) RandomDictator / BoostedRandomDictator on generated profiles "
    "(ties in first place, partial ballots, int or p/q weights, m <= number of candidates that "
    "appear on a ballot) under seeded and scripted streams: every seat goes to a candidate with a "
    "positive share of the current first-place weight (the law's support), m winners, a first-place "
    "tie resolved inside the tied set and recorded.  (law, extra) for profiles generated from "
    "VERIF_SEED on which the law is defined at every seat, the harness enumerates the exact law of "
    "the elected SEQUENCE (product of first-place shares over successively reduced profiles; "
    "BoostedRandomDictator mixture (1/(c-1)) f^2/sum f^2 + (1-1/(c-1)) f) and tests counts from "
    "thousands of seeded constructions by chi-square; random tiebreaks (Plurality boundary tie, "
    "STV elimination tie, and the random fallback of a borda / first-place tiebreak that resolves a "
    "three-way tie only partly: Plurality seat boundary, IRV later-round elimination) are tested "
    "for uniformity the same way.  Non-trivial = unequal shares "
    "(max/min >= 2), or a first-place tie on some ballot, or m >= 2.  Distinct = SHA-1 of case JSON."
)
ASSUMPTIONS = [
    "distribution clauses are decided at level 1e-9/tests per run (chi-square, cells with expectation < 5 pooled)",
    "m does not exceed the number of candidates that appear on a ballot (otherwise finding F12 applies)",
]


@st.composite
def case(draw):
    rule = draw(st.sampled_from(["RandomDictator", "BoostedRandomDictator"]))
    prof = draw(S.ranked_profile(1, 5, 7, tied=True))
    mentioned = {c for b in prof["ballots"] for p in b["r"] for c in p}
    m = draw(st.integers(1, len(mentioned)))
    return {"kind": "validity", "rule": rule, "cands": prof["cands"], "ballots": prof["ballots"], "m": m,
            "rng": draw(S.rng_spec())}


def strategy(tier):
    return case()


# ---- exact laws ------------------------------------------------------------------------------------


def fp_shares(ballots, cands):
    fp = refs.first_place(ballots, cands)
    tot = sum(fp.values(), Fraction(0))
    return {c: v / tot for c, v in fp.items()} if tot else None


def reduce_(ballots, cand):
    out = []
    for b in ballots:
        r = [[c for c in p if c != cand] for p in b["r"]]
        r = [p for p in r if p]
        if r:
            out.append({"r": r, "w": b["w"]})
    return out


def seq_law(rule, ballots, cands, m):
    """Exact law of the elected sequence; None if the law is undefined at some seat."""
    law = {}

    def rec(bl, cs, seq, p):
        if len(seq) == m:
            law[tuple(seq)] = law.get(tuple(seq), Fraction(0)) + p
            return True
        sh = fp_shares(bl, cs)
        c = len(cs)
        if rule == "BoostedRandomDictator" and c == 1:
            return rec(reduce_(bl, cs[0]), [], seq + [cs[0]], p)
        if sh is None:
            return False
        if rule == "RandomDictator":
            dist = sh
        else:
            sq = {k: v * v for k, v in sh.items()}
            tsq = sum(sq.values(), Fraction(0))
            a = Fraction(1, c - 1)
            dist = {k: a * sq[k] / tsq + (1 - a) * sh[k] for k in sh}
        ok = True
        for k, pk in dist.items():
            if pk > 0:
                ok = rec(reduce_(bl, k), [x for x in cs if x != k], seq + [k], p * pk) and ok
        return ok

    if not rec(ballots, list(cands), [], Fraction(1)):
        return None
    return law


def _law_counts(args):
    """Observed outcome counts of `reps` seeded constructions (one sub-job)."""
    kind, spec, reps, seed = args
    cands, ballots = spec["cands"], spec["ballots"]
    prof = C.mk_profile(ballots, cands)
    obs = {}
    import votekit.elections as VE

    with R.owned(seed) as _:
        for _i in range(reps):
            if kind in ("RandomDictator", "BoostedRandomDictator"):
                el = getattr(VE, kind)(prof, spec["m"])
                key = tuple(str(c) for s in el.get_elected() for c in s)
            elif kind == "plurality_tiebreak":
                el = VE.Plurality(prof, spec["m"], tiebreak="random")
                key = tuple(sorted(str(c) for s in el.get_elected() for c in s))
            elif kind == "borda_fallback_tiebreak":
                el = VE.Plurality(prof, spec["m"], tiebreak="borda")
                key = tuple(sorted(str(c) for s in el.get_elected() for c in s))
            elif kind == "irv_late_elimination_tiebreak":
                el = VE.IRV(prof, tiebreak="random")
                key = tuple(str(c) for c in el.election_states[3].eliminated[0])
            else:  # stv_elimination_tiebreak
                el = VE.STV(prof, m=1, tiebreak="random")
                key = tuple(str(c) for c in el.election_states[1].eliminated[0])
            obs[key] = obs.get(key, 0) + 1
    return obs


def law_of(kind, spec):
    cands, ballots = spec["cands"], spec["ballots"]
    if kind in ("RandomDictator", "BoostedRandomDictator"):
        return seq_law(kind, ballots, cands, spec["m"])
    if kind in ("borda_fallback_tiebreak", "irv_late_elimination_tiebreak"):
        return {tuple(k): Fraction(1, 2) for k in spec["law_keys"]}
    fp = refs.first_place(ballots, cands)
    if kind == "plurality_tiebreak":
        grp = refs.ranking_from_scores(fp)
        cnt, law = 0, {}
        for g in grp:
            if cnt + len(g) <= spec["m"]:
                cnt += len(g)
                continue
            above = [c for gg in grp[: grp.index(g)] for c in gg]
            need = spec["m"] - cnt
            combos = list(itertools.combinations(g, need))
            for cb in combos:
                law[tuple(sorted(above + list(cb)))] = Fraction(1, len(combos))
            break
        return law
    low = refs.ranking_from_scores(fp)[-1]
    return {(c,): Fraction(1, len(low)) for c in low}


SPLIT = 4


def _law_job(args, pool=None):
    kind, spec, reps, seed = args
    subs = [(kind, spec, reps // SPLIT, seed * 10 + j) for j in range(SPLIT)]
    parts = pool.map(_law_counts, subs) if pool is not None else [_law_counts(a) for a in subs]
    return _judge(args, parts)


def _judge(args, parts):
    kind, spec, reps, seed = args
    obs = {}
    for pt in parts:
        for k, v in pt.items():
            obs[k] = obs.get(k, 0) + v
    law = law_of(kind, spec)
    g = stats.gof(obs, {k: float(v) for k, v in law.items()})
    return {"kind": kind, "spec": spec, "reps": reps, "seed": seed, "p": g["p"], "stat": g["stat"], "dof": g["dof"],
            "impossible": [list(x) for x in g["impossible"]], "cells": len(law)}


def gen_specs(seed, tier):
    rnd = _random.Random(seed * 104729 + 17)
    specs = []
    per_rule = 3 if tier == "quick" else 16
    reps = 5000 if tier == "quick" else 20000
    names = ["A", "B", "C", "D"]
    for rule in ("RandomDictator", "BoostedRandomDictator"):
        k = 0
        while k < per_rule:
            n = rnd.randint(2, 4)
            if k % 3 == 1:
                n = 2  # with the unmentioned candidate below: c = 3, where 1/(c-1) matters most
            cands = names[:n]
            bl = []
            for _ in range(rnd.randint(2, 5)):
                perm = cands[:]
                rnd.shuffle(perm)
                r = [[c] for c in perm]
                if n >= 3 and rnd.random() < 0.3:
                    r = [sorted(perm[:2])] + [[c] for c in perm[2:]]  # tie in first place
                w = rnd.choice([1, 1, 2, 3, 5, "1/2", "7/3"])
                bl.append({"r": r, "w": w})
            m = rnd.randint(1, min(3, n))
            if k % 3 == 1:
                # a declared candidate who appears on no ballot (counts among the c remaining
                # candidates of the boosted rule, never wins)
                cands = cands + ["Z"]
            if k == 0:
                # the first parameter set of each rule always has a ballot with a tie for first place
                perm = cands[:]
                rnd.shuffle(perm)
                bl[0] = {"r": [sorted(perm[:2])] + [[c] for c in perm[2:]], "w": 4}
            if seq_law(rule, bl, cands, m) is None:
                continue
            sh = [v for v in fp_shares(bl, cands).values() if v > 0]
            if k >= 1 and (len(sh) < 2 or max(sh) < 3 * min(sh)):
                continue  # far-from-uniform shares: the only kind on which a wrong law is visible
            specs.append((rule, {"cands": cands, "ballots": bl, "m": m}, reps, seed * 1000 + len(specs)))
            k += 1
    # random tiebreaks
    tb = 2 if tier == "quick" else 8
    for i in range(tb):
        n = rnd.randint(3, 4)
        cands = names[:n]
        w = rnd.randint(1, 3)
        bl = [{"r": [[c]] + [[x] for x in cands if x != c], "w": w} for c in cands]
        specs.append(("plurality_tiebreak", {"cands": cands, "ballots": bl, "m": rnd.randint(1, n - 1)}, reps, seed * 1000 + len(specs)))
        lead = cands[0]
        bl2 = [{"r": [[lead]], "w": 2}] + [{"r": [[c], [lead]], "w": 1} for c in cands[1:]]
        specs.append(("stv_elimination_tiebreak", {"cands": cands, "ballots": bl2, "m": 1}, reps, seed * 1000 + len(specs)))
    # score-based tiebreaks that resolve a three-way tie only partly (X > Y = Z): the random fallback
    # is uniform over the part that is still tied
    for i in range(1 if tier == "quick" else 4):
        x, y, z = rnd.sample(names[:3], 3)
        w = rnd.randint(1, 3)
        bl = [{"r": [[x], [y], [z]], "w": w}, {"r": [[x], [z], [y]], "w": w},
              {"r": [[y], [x], [z]], "w": 2 * w}, {"r": [[z], [x], [y]], "w": 2 * w}]
        rnd.shuffle(bl)
        # first place 2w each; Borda x 14w > y 11w = z 11w; two seats: x and one of y, z
        specs.append(("borda_fallback_tiebreak", {"cands": sorted([x, y, z]), "ballots": bl, "m": 2,
                                                  "law_keys": [sorted([x, y]), sorted([x, z])]}, reps, seed * 1000 + len(specs)))
        # IRV: L 8, x 3, y 2, z 2, E 1 (-> y), F 1 (-> z); threshold 9.  E and F go first, then
        # x = y = z = 3 are tied at the bottom and the round-0 first-place votes put x above y = z
        bl = [{"r": [["L"]], "w": 8}, {"r": [[x]], "w": 3}, {"r": [[y]], "w": 2}, {"r": [[z]], "w": 2},
              {"r": [["E"], [y]], "w": 1}, {"r": [["F"], [z]], "w": 1}]
        rnd.shuffle(bl)
        specs.append(("irv_late_elimination_tiebreak", {"cands": sorted([x, y, z]) + ["E", "F", "L"], "ballots": bl, "m": 1,
                                                        "law_keys": [[y], [z]]}, reps, seed * 1000 + len(specs)))
    return specs


def extra(tier, seed, pool):
    specs = gen_specs(seed, tier)
    # split each spec into 4 sub-jobs so 16 cores are used, then merge by re-running gof on sums
    subs = [(k, sp, reps // SPLIT, sd * 10 + j) for (k, sp, reps, sd) in specs for j in range(SPLIT)]
    parts = pool.map(_law_counts, subs, chunksize=1)
    results = [_judge(specs[i], parts[i * SPLIT:(i + 1) * SPLIT]) for i in range(len(specs))]
    alpha = stats.ALPHA_RUN / len(specs)
    fails, samples, nt = [], [], []
    for r in results:
        case_ = {"kind": "law", "law_kind": r["kind"], "spec": r["spec"], "reps": r["reps"], "seed": r["seed"]}
        nt.append(C.case_hash(case_))
        if r["p"] < alpha:
            fails.append((case_, [{"subcheck": f"law_{r['kind']}", "failure": "chi2", "callee": None,
                                   "detail": f"p={r['p']:.3g} stat={r['stat']:.1f} dof={r['dof']} impossible={r['impossible']}"}]))
        if len(samples) < 3:
            samples.append({**case_, "p": r["p"], "cells": r["cells"]})
    return {"evaluations": len(specs), "fails": fails, "samples": samples, "nontrivial_hashes": nt,
            "coverage": {"law_tests": len(specs), "constructions_per_test": specs[0][2], "per_test_alpha": alpha,
                         "min_p": min(r["p"] for r in results)}}


def check(case):
    out = Outcome()
    if case["kind"] == "law":
        r = _law_job((case["law_kind"], case["spec"], case["reps"], case["seed"]))
        if r["p"] < stats.ALPHA_RUN / 10:
            out.fail(f"law_{case['law_kind']}", "chi2", f"p={r['p']:.3g} stat={r['stat']:.1f} dof={r['dof']}")
        return out
    rule, cands, ballots, m = case["rule"], case["cands"], case["ballots"], case["m"]
    prof = C.mk_profile(ballots, cands)
    out.label(f"rule={rule}")
    res = E.run(rule, prof, {"m": m}, case["rng"])
    if res.exc is not None:
        out.fail("validity", res.exc_type, f"{rule} m={m}: {res.exc!r}", callee=res.frame)
        return out
    states = res.states
    bl = [{"r": b["r"], "w": b["w"]} for b in ballots]
    cs = list(cands)
    for i in range(1, len(states)):
        el = [c for g in states[i]["elected"] for c in g]
        if len(el) != 1:
            out.fail("validity", "not_one_per_seat", f"round {i}: {states[i]['elected']}")
            return out
        w = el[0]
        sh = fp_shares(bl, cs)
        if not (rule == "BoostedRandomDictator" and len(cs) == 1):
            if sh is None or sh.get(w, 0) <= 0:
                out.fail("validity", "elected_outside_support", f"round {i}: {w} elected, first-place shares {sh}")
                return out
        # a tie in first place must be recorded and resolved inside the tied set
        for k, resn in states[i]["tiebreaks"]:
            flat = [c for g in resn for c in g]
            if sorted(flat) != sorted(k) or w != flat[0]:
                out.fail("validity", "tiebreak_record", f"round {i}: tied {k} resolved {resn}, elected {w}")
        got_scores = {c: C.frac(v) for c, v in states[i - 1]["scores"].items()}
        if got_scores != refs.first_place(bl, cs):
            out.fail("validity", "recorded_scores", f"round {i - 1}: {got_scores} vs {refs.first_place(bl, cs)}")
        bl = reduce_(bl, w)
        cs = [c for c in cs if c != w]
    if len(states) - 1 != m:
        out.fail("validity", "winner_count", f"{len(states) - 1} seats filled, m={m}")
    sh0 = fp_shares(ballots, cands)
    pos = [v for v in sh0.values() if v > 0]
    tie = any(len(b["r"][0]) > 1 for b in ballots)
    out.nontrivial = m >= 2 or tie or (max(pos) >= 2 * min(pos))
    return out
