"""C18 - cast-vote-record loading and saving keep every vote."""

from __future__ import annotations

import ast
import csv
import os
import shutil
import tempfile
from fractions import Fraction

from hypothesis import strategies as st

from .. import cases as C
from .. import elect as E
from .. import strategies as S
from ..run import Outcome

ID = "C18"
BUDGET = {"quick": 30000, "thorough": 300000}
FUZZ = {"thorough": 6000}  # coverage-guided stage: libFuzzer runs per worker (x16), see vk/fuzz.py
RULE = (
    "Hypothesis builds a table MODEL and writes it with csv.writer into a per-case temp dir: "
    "(csv) header + 1-12 rows, 1-6 rank columns, optional id column at any position, optional "
    "weight column, blanks, repeated rows, names with spaces / quotes / commas / non-ASCII (never "
    "strings pandas re-types: NA tokens, true/false, numerics), delimiter in {',', ';', tab, '|'}, "
    "rank_cols any non-empty sub-sequence in any order (or omitted when there is no weight "
    "column); (csv_malformed) missing file, zero bytes, header only, blank id, duplicate id; "
    "(scottish) seats, ward, names, parties, ballots with multiplicities, blank rows, and the "
    "inconsistent-metadata variants; (to_csv) profiles with rankings, ties and scores.  Oracle: "
    "round trip against the model.  Non-trivial = rank_cols a strict, reordered subset, or the id "
    "column not first, or a repeated pattern that differs only in a blank.  Distinct = SHA-1."
)
ASSUMPTIONS = [
    "cells are strings pandas does not re-type on its own; weight_col / id_col are never listed among rank_cols",
    "with a weight column rank_cols is always given (the documented default treats every column as a rank)",
]

NAMES = ["A", "B", "C", "D", "E", "Bob Roy", "O'Neil", "x,y", 'q"t', "Ünal", "李", "alice", "Zed", "w-in", "a;b", "p|q"]
DELIMS = [None, ",", ";", "\t", "|"]


@st.composite
def case(draw):
    kind = draw(st.sampled_from(["csv", "csv", "csv", "csv_malformed", "scottish", "scottish", "scottish_bad", "to_csv"]))
    if kind in ("csv", "csv_malformed"):
        nrank = draw(st.integers(1, 6))
        has_id = draw(st.booleans()) or kind == "csv_malformed"
        has_w = draw(st.integers(0, 2)) == 0
        cols = [f"rank{i + 1}" for i in range(nrank)]
        if has_id:
            cols.insert(draw(st.integers(0, len(cols))), "id")
        if has_w:
            cols.insert(draw(st.integers(0, len(cols))), "wt")
        names = draw(st.lists(st.sampled_from(NAMES), min_size=1, max_size=4, unique=True))
        nrows = draw(st.integers(1, 12))
        rows = []
        for i in range(nrows):
            if rows and draw(st.integers(0, 2)) == 0:
                base = list(draw(st.sampled_from(rows)))
                if draw(st.booleans()):
                    # differs from an earlier row only in one blank
                    rk = [j for j, c in enumerate(cols) if c.startswith("rank")]
                    j = draw(st.sampled_from(rk))
                    base[j] = "" if base[j] else draw(st.sampled_from(names))
                row = base
            else:
                row = [draw(st.sampled_from(names + [""])) if c.startswith("rank") else "" for c in cols]
            for j, c in enumerate(cols):
                if c == "id":
                    row[j] = f"v{i + 1}"
                elif c == "wt":
                    row[j] = str(draw(st.integers(1, 9)))
            if nrank == 1 and not has_id and not has_w and row[0] == "":
                row[0] = names[0]  # a lone blank cell would be an empty line, which csv readers skip
            rows.append(row)
        rank_idx = [j for j, c in enumerate(cols) if c.startswith("rank")]
        if has_w or draw(st.booleans()):
            k = draw(st.integers(1, len(rank_idx)))
            rank_cols = list(draw(st.permutations(rank_idx)))[:k]
            if draw(st.booleans()):
                rank_cols = sorted(rank_cols)
        else:
            rank_cols = None
        c = {"kind": kind, "cols": cols, "rows": rows, "rank_cols": rank_cols,
             "id_col": cols.index("id") if has_id else None,
             "weight_col": cols.index("wt") if has_w else None,
             "delimiter": draw(st.sampled_from(DELIMS))}
        if kind == "csv_malformed":
            c["variant"] = draw(st.sampled_from(["missing_file", "zero_bytes", "header_only", "blank_id", "duplicate_id"]))
            c["index"] = draw(st.integers(0, nrows - 1))
        return c
    if kind in ("scottish", "scottish_bad"):
        n = draw(st.integers(1, 6))
        cnames = draw(st.lists(st.sampled_from(NAMES + ["Paul", "George", "Ringo"]), min_size=n, max_size=n, unique=True))
        parties = [draw(st.sampled_from(["Orange (O)", "Red (R)", "Ind", "Green, The", "P 5"])) for _ in range(n)]
        ballots = []
        for _ in range(draw(st.integers(1, 8))):
            order = list(draw(st.permutations(list(range(1, n + 1)))))[: draw(st.integers(1, n))]
            if ballots and draw(st.integers(0, 3)) == 0:
                order = draw(st.sampled_from(ballots))[1]
            ballots.append([draw(st.integers(1, 200)), order])
        c = {"kind": kind, "names": cnames, "parties": parties, "seats": draw(st.integers(1, n)),
             "ward": draw(st.sampled_from(["Wardy McWard Ward", "Ward 7 North", "Leith, Walk"])),
             "ballots": ballots, "blank_rows": draw(st.lists(st.integers(0, 12), max_size=3)),
             "trailing_commas": draw(st.booleans())}
        if kind == "scottish_bad":
            c["variant"] = draw(st.sampled_from(["meta_three_fields", "meta_one_field", "count_over", "count_under", "zero_bytes", "missing_file"]))
        return c
    prof = draw(S.ranked_profile(1, 4, 6, tied=True, odd_names=True))
    for b in prof["ballots"]:
        if draw(st.integers(0, 2)) == 0:
            b["s"] = {k: draw(st.sampled_from([1, 2, "1/2", "3/4"])) for k in
                      draw(st.lists(st.sampled_from(prof["cands"]), min_size=1, max_size=len(prof["cands"]), unique=True))}
        if draw(st.integers(0, 5)) == 0:
            b["r"] = None
            b.setdefault("s", {prof["cands"][0]: 1})
    return {"kind": "to_csv", "cands": prof["cands"], "ballots": prof["ballots"]}


def strategy(tier):
    return case()


def write_csv(path, cols, rows, delimiter):
    with open(path, "w", newline="", encoding="utf8") as f:
        w = csv.writer(f, delimiter=delimiter or ",")
        w.writerow(cols)
        for r in rows:
            w.writerow(r)


def check(case):
    out = Outcome()
    tmp = tempfile.mkdtemp(prefix="vk-c18-")
    try:
        _check(case, out, tmp)
    finally:
        shutil.rmtree(tmp, ignore_errors=True)
    return out


def _check(case, out, tmp):
    from pandas.errors import DataError, EmptyDataError
    from votekit.cvr_loaders import load_csv, load_scottish

    kind = case["kind"]
    out.label(f"kind={kind}")
    path = os.path.join(tmp, "cvr.csv")
    if kind in ("csv", "csv_malformed"):
        cols, rows = case["cols"], [list(r) for r in case["rows"]]
        kw = {}
        if case["weight_col"] is not None:
            kw["weight_col"] = case["weight_col"]
        if case["id_col"] is not None:
            kw["id_col"] = case["id_col"]
        if case["delimiter"] is not None:
            kw["delimiter"] = case["delimiter"]
        args = [case["rank_cols"]] if case["rank_cols"] is not None else []
        if kind == "csv_malformed":
            var = case["variant"]
            want = {"missing_file": FileNotFoundError, "zero_bytes": EmptyDataError, "header_only": EmptyDataError,
                    "blank_id": ValueError, "duplicate_id": DataError}[var]
            i = case["index"]
            idc = case["id_col"]
            if var == "missing_file":
                path = os.path.join(tmp, "nope.csv")
            elif var == "zero_bytes":
                open(path, "w").close()
            elif var == "header_only":
                write_csv(path, cols, [], case["delimiter"])
            elif var == "blank_id":
                rows[i][idc] = ""
                write_csv(path, cols, rows, case["delimiter"])
            else:
                if len(rows) < 2:
                    rows.append(list(rows[0]))
                rows[i][idc] = rows[(i + 1) % len(rows)][idc]
                write_csv(path, cols, rows, case["delimiter"])
            v, exc, _ = E.call(load_csv, path, *args, **kw)
            if exc is None:
                out.fail("csv_malformed", "accepted", f"{var}: loaded {v.num_ballots} ballots")
            elif not isinstance(exc, want):
                out.fail("csv_malformed", type(exc).__name__, f"{var}: {exc!r}, documented {want.__name__}")
            out.nontrivial = var in ("blank_id", "duplicate_id") and (i > 0 or idc > 0)
            return
        write_csv(path, cols, rows, case["delimiter"])
        v, exc, _ = E.call(load_csv, path, *args, **kw)
        rank_cols = case["rank_cols"]
        if rank_cols is None:
            rank_cols = [j for j, c in enumerate(cols) if c != "id"]
        if exc is not None:
            out.fail("csv", type(exc).__name__, f"cols {cols} rank_cols {case['rank_cols']} id_col {case['id_col']} "
                     f"weight_col {case['weight_col']}: {exc!r}")
        else:
            want = {}
            for r in rows:
                key = tuple((r[j] if r[j] != "" else None) for j in rank_cols)
                w = Fraction(int(r[case["weight_col"]])) if case["weight_col"] is not None else Fraction(1)
                ent = want.setdefault(key, [Fraction(0), set()])
                ent[0] += w
                if case["id_col"] is not None:
                    ent[1].add(r[case["id_col"]])
            got = {}
            dup = False
            for b in v.ballots:
                key = tuple(next(iter(s)) for s in b.ranking)
                key = tuple(None if (k is None or k != k) else str(k) for k in key)
                if key in got:
                    dup = True
                got[key] = [b.weight, set(map(str, b.voter_set)) if b.voter_set else set()]
            if dup:
                out.fail("csv", "pattern_split", f"a row pattern appears as more than one ballot: {[b.ranking for b in v.ballots]}")
            if {k: x[0] for k, x in got.items()} != {k: x[0] for k, x in want.items()}:
                out.fail("csv", "weights", f"cols {cols} rank_cols {case['rank_cols']} id_col {case['id_col']} weight_col "
                         f"{case['weight_col']} delimiter {case['delimiter']!r}: loaded { {k: str(x[0]) for k, x in got.items()} }, "
                         f"table gives { {k: str(x[0]) for k, x in want.items()} }")
            elif case["id_col"] is not None and {k: x[1] for k, x in got.items()} != {k: x[1] for k, x in want.items()}:
                out.fail("csv", "voter_sets", f"loaded { {k: x[1] for k, x in got.items()} }, table gives { {k: x[1] for k, x in want.items()} }")
            tot = sum((x[0] for x in want.values()), Fraction(0))
            if v.total_ballot_wt != tot:
                out.fail("csv", "total_weight", f"{v.total_ballot_wt} vs {tot}")
        rk = [j for j, c in enumerate(cols) if c.startswith("rank")]
        strict = case["rank_cols"] is not None and (len(case["rank_cols"]) < len(rk) or case["rank_cols"] != sorted(case["rank_cols"]))
        idnf = case["id_col"] not in (None, 0)
        blankdiff = False
        keys = [tuple(r[j] for j in rank_cols) for r in rows]
        for a in keys:
            for b in keys:
                if a != b and sum(1 for x, y in zip(a, b) if x != y) == 1 and any((x == "") != (y == "") for x, y in zip(a, b)):
                    blankdiff = True
        for lab, on in (("rank_cols_strict_or_reordered", strict), ("id_not_first", idnf), ("differs_only_in_blank", blankdiff)):
            if on:
                out.label(lab)
        out.nontrivial = strict or idnf or blankdiff
        return
    if kind in ("scottish", "scottish_bad"):
        names, parties, n = case["names"], case["parties"], len(case["names"])
        lines = [[str(n), str(case["seats"])]]
        for w, order in case["ballots"]:
            lines.append([str(w)] + [str(x) for x in order])
        for i, (nm, pt) in enumerate(zip(names, parties)):
            lines.append([f"Candidate {i + 1}", nm, pt])
        lines.append([case["ward"]])
        var = case.get("variant")
        if var == "meta_three_fields":
            lines[0] = lines[0] + ["7"]
        elif var == "meta_one_field":
            lines[0] = lines[0][:1]
        elif var == "count_over":
            lines[0][0] = str(n + 1)
        elif var == "count_under":
            if n == 1:
                lines[0][0] = "2"
            else:
                lines[0][0] = str(n - 1)
        for pos in sorted(case["blank_rows"], reverse=True):
            lines.insert(min(pos, len(lines)), [])
        with open(path, "w", newline="", encoding="utf8") as f:
            wtr = csv.writer(f)
            for ln in lines:
                wtr.writerow(ln + ([""] if case["trailing_commas"] and ln else []))
        if var == "zero_bytes":
            open(path, "w").close()
        if var == "missing_file":
            path = os.path.join(tmp, "nope.csv")
        v, exc, _ = E.call(load_scottish, path)
        if kind == "scottish_bad":
            want = {"zero_bytes": EmptyDataError, "missing_file": FileNotFoundError}.get(var, DataError)
            if exc is None:
                out.fail("scottish_bad", "accepted", f"{var}: returned seats={v[1]} cands={v[2]}")
            elif not isinstance(exc, want):
                out.fail("scottish_bad", type(exc).__name__, f"{var}: {exc!r}, documented {want.__name__}")
            out.nontrivial = var.startswith("count") or var.startswith("meta")
            return
        if exc is not None:
            out.fail("scottish", type(exc).__name__, repr(exc))
            return
        prof, seats, cl, c2p, ward = v
        if seats != case["seats"] or ward != case["ward"] or list(cl) != names or dict(c2p) != dict(zip(names, parties)):
            out.fail("scottish", "metadata", f"seats {seats} ward {ward!r} cands {cl} parties {c2p} vs model {case['seats']} {case['ward']!r} {names} {parties}")
        want = {}
        for w, order in case["ballots"]:
            k = tuple(names[x - 1] for x in order)
            want[k] = want.get(k, Fraction(0)) + w
        got = {}
        for b in prof.ballots:
            k = tuple(next(iter(s)) for s in b.ranking)
            got[k] = got.get(k, Fraction(0)) + b.weight
        if got != want:
            out.fail("scottish", "ballots", f"loaded {got}, file says {want}")
        if list(prof.candidates) != names:
            out.fail("scottish", "profile_candidates", f"{prof.candidates} vs {names}")
        out.nontrivial = bool(case["blank_rows"]) or len(want) < len(case["ballots"])
        return
    # ---- to_csv ---------------------------------------------------------------------------------------
    prof = C.mk_profile(case["ballots"], case["cands"])
    v, exc, _ = E.call(prof.to_csv, path)
    if exc is not None:
        out.fail("to_csv", type(exc).__name__, repr(exc))
        return
    with open(path, newline="", encoding="utf8") as f:
        rd = list(csv.DictReader(f))
    if len(rd) != len(case["ballots"]):
        out.fail("to_csv", "row_count", f"{len(rd)} rows for {len(case['ballots'])} ballots")
        return
    for row, b in zip(rd, prof.ballots):
        try:
            w = float(row["weight"])
            r = ast.literal_eval(row["ranking"])
            s = ast.literal_eval(row["scores"])
        except Exception as e:  # noqa: BLE001
            out.fail("to_csv", "unparsable", f"{row}: {e!r}")
            return
        if w != float(b.weight):
            out.fail("to_csv", "weight", f"{row['weight']} vs {b.weight}")
        if tuple(frozenset(x) for x in r) != (b.ranking or ()):
            out.fail("to_csv", "ranking", f"{row['ranking']} vs {b.ranking}")
        if dict(s) != {c: float(x) for c, x in (b.scores or {}).items()}:
            out.fail("to_csv", "scores", f"{row['scores']} vs {b.scores}")
    out.nontrivial = any(b.get("s") for b in case["ballots"]) and any(
        b.get("r") and any(len(p) > 1 for p in b["r"]) for b in case["ballots"])
