"""C02 - each STV / IRV / SequentialRCV round is a legal step of the documented count."""

from __future__ import annotations

import itertools

from hypothesis import strategies as st

from .. import cases as C
from .. import elect as E
from .. import strategies as S
from ..ref import stv as ref
from ..run import Outcome

ID = "C02"
BUDGET = {"quick": 24000, "thorough": 300000}
FUZZ = {"thorough": 4000}  # coverage-guided stage: libFuzzer runs per worker (x16), see vk/fuzz.py
RULE = (
    "Hypothesis: profile of 1-8 untied ballots over 1-6 declared candidates (partial ballots, "
    "int or p/q weights, zero-vote candidates, duplicated / mirrored / rotated rankings) x rule in "
    "{STV fractional, IRV, SequentialRCV} x m x quota in {droop, hare} x simultaneous x tiebreak in "
    "{None, random, borda, first_place} x seed-or-script for every random choice.  Every recorded "
    "round is judged by the reference step model (vk/ref/stv.py).  Thorough adds the complete "
    "enumeration of all profiles of <= 3 distinct rankings over 3 candidates with weights 1..3 x "
    "12 configurations.  Non-trivial = the count contains a surplus transfer with non-zero surplus "
    "AND an elimination.  Distinct = SHA-1 of canonical case JSON."
)
ASSUMPTIONS = [
    "elected candidates of one round are compared as a set (the statement fixes order only for "
    "tallies/remaining)",
    "rounds in which quota-reachers outnumber the unfilled seats, and a Hare quota of 0, are "
    "outside what the statement defines; they are attributed to known finding F10",
]


@st.composite
def case(draw, max_c=6, max_b=8):
    prof = draw(S.ranked_profile(1, max_c, max_b, tied=False, tie_rich=draw(st.integers(0, 2)) == 0))
    n = len(prof["cands"])
    rule = draw(st.sampled_from(["STV", "STV", "STV", "IRV", "SequentialRCV", "STV_random"]))
    if rule == "STV_random":
        # whole-ballot (random) transfer: tallies depend on the sample, so the rounds are judged on
        # their recorded tallies (who may be elected / eliminated), not against predicted ones
        prof = draw(S.ranked_profile(1, max_c, max_b, tied=False, weights="int", tie_rich=draw(st.booleans())))
    return {
        "cands": prof["cands"], "ballots": prof["ballots"], "rule": rule,
        "m": 1 if rule == "IRV" else draw(st.integers(1, n)),
        "quota": draw(st.sampled_from(["droop", "droop", "hare"])),
        "simultaneous": True if rule == "IRV" else draw(st.booleans()),
        "tiebreak": draw(st.sampled_from([None, "random", "random", "borda", "first_place"])),
        "rng": draw(S.rng_spec()),
    }


def strategy(tier):
    # thorough: deeper bounds (up to 8 candidates, 12 ballots)
    return case() if tier == "quick" else st.one_of(case(), case(8, 12))


def exhaustive(tier):
    if tier != "thorough":
        return None
    return _exh()


def small_profiles():
    cands = ["A", "B", "C"]
    rankings = []
    for k in (1, 2, 3):
        for p in itertools.permutations(cands, k):
            rankings.append([[c] for c in p])
    for k in (1, 2, 3):
        for rs in itertools.combinations(range(len(rankings)), k):
            for ws in itertools.product((1, 2, 3), repeat=k):
                yield cands, [{"r": rankings[i], "w": w} for i, w in zip(rs, ws)]


CONFIGS = [
    ("STV", 1, "droop", True, "random"), ("STV", 2, "droop", True, "random"),
    ("STV", 2, "droop", False, "random"), ("STV", 2, "droop", False, None),
    ("STV", 1, "hare", True, "borda"), ("STV", 2, "hare", False, "first_place"),
    ("STV", 3, "droop", True, None), ("SequentialRCV", 2, "droop", True, "random"),
    ("SequentialRCV", 2, "droop", False, "borda"), ("SequentialRCV", 1, "hare", True, None),
    ("IRV", 1, "droop", True, None), ("IRV", 1, "hare", True, "random"),
]


def _exh():
    for i, (cands, ballots) in enumerate(small_profiles()):
        for j, (rule, m, q, sim, tb) in enumerate(CONFIGS):
            yield {"cands": cands, "ballots": ballots, "rule": rule, "m": m, "quota": q,
                   "simultaneous": sim, "tiebreak": tb, "rng": {"seed": i, "script": [j, i, i // 7]}}


def judge_run(out, case, res, model, sub="step"):
    """Judge the recorded rounds of `res` with `model`.  Returns the status reached."""
    sim = case["simultaneous"]
    states = res.states or []
    if not states:
        return "nostates"
    s0 = states[0]
    got0 = {c: C.frac(v) for c, v in s0["scores"].items()}
    if got0 != model.initial:
        out.fail(sub, "round0_scores", f"recorded {got0}, first-place weights {model.initial}")
    if s0["remaining"] != model.grouping(model.initial):
        out.fail(sub, "round0_remaining", f"recorded {s0['remaining']} vs {model.grouping(model.initial)}")
    status = "ok"
    for i, stt in enumerate(states[1:], start=1):
        if stt["round"] != i:
            out.fail(sub, "round_number", f"state {i} has round_number {stt['round']}")
        if model.finished():
            out.fail(sub, "round_after_finish", f"round {i} recorded although {model.m} seats are filled")
            return "stop"
        probs, status = model.judge(stt, sim)
        for p in probs:
            out.fail(sub, p.code, f"round {i}: {p.detail}")
        if status != "ok":
            return status
    return status


def judge_decisions(out, case, res, thr, initial):
    """Transfer-rule independent part of the statement: given the tallies RECORDED for round r-1,
    round r must elect exactly the quota-reachers (one highest in one-by-one mode), or default-elect
    when remaining == unfilled seats, or eliminate exactly one lowest candidate, ties decided by the
    lowest initial first-place tally."""
    states = res.states or []
    sim, m = case["simultaneous"], case["m"]
    n_elected = 0
    for i in range(1, len(states)):
        prev = {c: C.frac(v) for c, v in states[i - 1]["scores"].items()}
        elected = sorted(c for g in states[i]["elected"] for c in g)
        elim = sorted(c for g in states[i]["eliminated"] for c in g)
        if not prev:
            out.fail("decision", "round_without_tallies", f"round {i}")
            return
        reach = sorted(c for c, v in prev.items() if v >= thr)
        seats = m - n_elected
        where = f"round {i}: recorded tallies {prev}, threshold {thr}, {seats} seats left"
        if reach:
            if sim and len(reach) > seats:
                return  # over-quota round (finding F10a): nothing defined
            if sim:
                if elected != reach or elim:
                    out.fail("decision", "wrong_elected_set", f"{where}: quota-reachers {reach}, recorded elected {elected} eliminated {elim}")
                    return
            else:
                mx = max(prev.values())
                top = sorted(c for c, v in prev.items() if v == mx)
                if len(elected) != 1 or elected[0] not in top or elim:
                    out.fail("decision", "wrong_single_elected", f"{where}: highest {top}, recorded elected {elected} eliminated {elim}")
                    return
        elif len(prev) == seats:
            if elected != sorted(prev) or elim:
                out.fail("decision", "default_election_wrong", f"{where}: recorded elected {elected} eliminated {elim}")
                return
        else:
            mn = min(prev.values())
            low = [c for c, v in prev.items() if v == mn]
            mi = min(initial[c] for c in low)
            allowed = sorted(c for c in low if initial[c] == mi)
            if elected or len(elim) != 1 or elim[0] not in allowed:
                out.fail("decision", "wrong_elimination", f"{where}: lowest {sorted(low)} (initial tallies "
                         f"{ {c: initial[c] for c in low} }), allowed {allowed}, recorded elected {elected} eliminated {elim}")
                return
        n_elected += len(elected)
        # tallies of the next round are whole numbers of ballots and only list continuing candidates
        nxt = {c: C.frac(v) for c, v in states[i]["scores"].items()}
        gone = set(elected) | set(elim)
        if set(nxt) != set(prev) - gone and nxt:
            out.fail("decision", "tallied_candidates", f"round {i}: tallies for {sorted(nxt)}, continuing {sorted(set(prev) - gone)}")
            return
        if any(v != int(v) for v in nxt.values()):
            out.fail("decision", "fractional_tally_under_whole_ballot_transfer", f"round {i}: {nxt}")
            return
        if nxt and states[i]["remaining"] != ref.Model.grouping(None, nxt):
            out.fail("decision", "remaining_mismatch", f"round {i}: recorded {states[i]['remaining']} vs tallies {nxt}")
            return
    if res.exc is None and n_elected != m:
        out.fail("decision", "ended_early", f"{n_elected} of {m} seats filled when the records end")


def check_random(case):
    out = Outcome()
    cfg = {"m": case["m"], "quota": case["quota"], "simultaneous": case["simultaneous"],
           "tiebreak": case["tiebreak"], "transfer": "random"}
    prof = C.mk_profile(case["ballots"], case["cands"])
    out.label("rule=STV_random", f"quota={case['quota']}", f"sim={case['simultaneous']}", f"tb={case['tiebreak']}")
    model = ref.Model(case["ballots"], case["cands"], case["m"], case["quota"])
    if model.threshold == 0:
        out.excluded = "hare_threshold_zero"
        return out
    res = E.run("STV", prof, cfg, case["rng"])
    if res.exc_type == "NoProgress":
        out.fail("termination", "NoProgress", str(res.exc))
        return out
    if res.states:
        s0 = {c: C.frac(v) for c, v in res.states[0]["scores"].items()}
        if s0 != model.initial:
            out.fail("decision", "round0_scores", f"recorded {s0}, first-place weights {model.initial}")
        judge_decisions(out, case, res, model.threshold, model.initial)
    if res.exc is None and res.election.threshold != model.threshold:
        out.fail("threshold", "value", f"STV.threshold {res.election.threshold} != {model.threshold}")
    rounds = len(res.states or []) - 1
    kinds = {("e" if s["elected"] else "x") for s in (res.states or [])[1:]}
    out.nontrivial = rounds >= 3 and kinds == {"e", "x"}
    if out.nontrivial:
        out.labels.insert(0, f"nt:STV_random:{case['quota']}:sim={case['simultaneous']}")
    return out


def check(case):
    if case["rule"] == "STV_random":
        return check_random(case)
    out = Outcome()
    rule = case["rule"]
    cfg = {"m": case["m"], "quota": case["quota"], "simultaneous": case["simultaneous"],
           "tiebreak": case["tiebreak"], "transfer": "fractional"}
    prof = C.mk_profile(case["ballots"], case["cands"])
    model = ref.Model(case["ballots"], case["cands"], case["m"], case["quota"],
                      full_weight=(rule == "SequentialRCV"))
    out.label(f"rule={rule}", f"quota={case['quota']}", f"sim={case['simultaneous']}",
              f"tb={case['tiebreak']}")
    res = E.run(rule, prof, cfg, case["rng"])
    if model.threshold == 0:
        # Hare quota of 0 (total weight < m): the statement's steps are not defined
        out.excluded = "hare_threshold_zero"
        if res.exc is not None and res.exc_type != "NoProgress":
            out.fail("hare_threshold_zero", res.exc_type, repr(res.exc), callee=None)
        return out
    status = judge_run(out, case, res, model)
    if status == "overfull":
        out.label("overfull")
        out.fail("overfull_round", res.exc_type or "returned",
                 f"quota-reachers {model.reachers()} outnumber the {model.seats_left()} unfilled seats "
                 f"(threshold {model.threshold}, tallies {model.tallies()}); outcome: {res.exc!r}")
        return out
    if res.exc is None:
        if status == "ok" and not model.finished():
            out.fail("step", "ended_early", f"{len(model.elected)} of {model.m} seats filled when the records end")
        if res.election.threshold != model.threshold:
            out.fail("threshold", "value", f"STV.threshold {res.election.threshold} != {model.threshold}")
        try:
            t2 = res.election.get_threshold(prof.total_ballot_wt * 3)
            if t2 != model.threshold:
                out.fail("threshold", "changes", f"get_threshold after the count gives {t2}")
        except Exception as exc:  # noqa: BLE001
            out.fail("threshold", type(exc).__name__, repr(exc))
    else:
        if res.exc_type == "NoProgress":
            out.fail("termination", "NoProgress", str(res.exc))
        elif status in ("ok", "nostates") and model.overfull(case["simultaneous"]):
            out.label("overfull")
            out.fail("overfull_round", res.exc_type, f"quota-reachers {model.reachers()} outnumber the "
                     f"{model.seats_left()} unfilled seats; {res.exc!r}")
        elif (
            status in ("ok", "nostates") and res.exc_type == "ValueError" and case["tiebreak"] is None
            and not case["simultaneous"] and not model.finished()
            and model.next_kind() == "elect" and len(model.top_tie()) > 1
        ):
            out.label("unbroken_tie_ValueError")
        elif status in ("ok", "nostates"):
            out.fail("exception", res.exc_type, f"{res.exc!r} after {len(res.states or []) - 1} rounds; "
                     f"model: next={model.next_kind() if not model.finished() else 'finished'} tallies={model.tallies()}",
                     callee=res.frame)
    if model.n_ties:
        out.label("tie_round")
    if model.n_default:
        out.label("default_election")
    if model.exhausted:
        out.label("exhausted_ballots")
    if res.draws:
        out.label("random_draws")
    out.nontrivial = model.n_surplus >= 1 and model.n_elim >= 1
    if out.nontrivial:
        out.labels.insert(0, f"nt:{rule}:{case['quota']}:sim={case['simultaneous']}")
    return out
