"""C16 - generated ballots follow the documented model distributions."""

from __future__ import annotations

import itertools
import math
import pickle
import random as _random
from fractions import Fraction

from hypothesis import strategies as st

from .. import cases as C
from .. import gen as G
from .. import rng as R
from .. import stats
from .. import strategies as S
from ..run import Outcome

ID = "C16"
BUDGET = {"quick": 1500, "thorough": 20000}
LAW_MODELS = ["name_PlackettLuce", "short_name_PlackettLuce", "name_Cumulative", "slate_PlackettLuce",
              "name_BradleyTerry", "name_BradleyTerry_MCMC", "slate_BradleyTerry", "slate_BradleyTerry_MCMC",
              "ImpartialCulture", "AlternatingCrossover", "CambridgeSampler"]
RULE = (
    "Two parts.  (spatial, Hypothesis) Spatial / ClusteredSpatial with explicit distributions in "
    "1-3 dimensions and OneDimSpatial, 1-5 candidates, N in 1..40, seeded streams: for EVERY stream "
    "the returned ranking -> count map must equal the one obtained by sorting the candidates by "
    "distance from each returned voter position (OneDimSpatial, which returns no positions: all "
    "ballots single-peaked on one common axis).  (law, extra) parameter sets generated from "
    "VERIF_SEED with far-from-uniform intervals (e.g. .6/.3/.1) and cohesion on both sides of 1/2, "
    "whose exact ballot law the harness enumerates (<= 4 candidates per slate pair, <= 24 "
    "rankings): chi-square goodness of fit of 20 000 - 50 000 generated ballots per set for "
    + ", ".join(LAW_MODELS) + " (MCMC variants: total-variation bound on a 2e5-step run instead, "
    "the chain being autocorrelated).  Non-trivial = a parameter set whose law is far from uniform "
    "(max/min cell probability >= 3); every law test is.  Distinct = SHA-1 of case JSON."
)
ASSUMPTIONS = [
    "distribution clauses are decided at level 1e-9/tests per run (chi-square, cells with expectation < 5 pooled)",
    "MCMC variants: total variation < 0.06 between the empirical law of a 2e5-step run on <= 6 states and the model law",
]

TV_BOUND = 0.06


# =====================================================================================================
# part 1: spatial models, exact for every stream (Hypothesis)
# =====================================================================================================


@st.composite
def case(draw):
    model = draw(st.sampled_from(["Spatial", "ClusteredSpatial", "OneDimSpatial"]))
    cands = draw(S.cand_names(1, 5, odd=True))
    c = {"kind": "spatial", "model": model, "cands": cands, "seed": draw(S.seed), "N": draw(st.integers(1, 40))}
    if model == "Spatial":
        c["dim"] = draw(st.integers(1, 3))
        c["vdist"] = draw(st.sampled_from(["uniform", "normal"]))
        c["metric"] = draw(st.sampled_from(["euclidean", "l1"]))
    if model == "ClusteredSpatial":
        c["per_cand"] = {k: draw(st.integers(0, 8)) for k in cands}
        if sum(c["per_cand"].values()) == 0:
            c["per_cand"][cands[0]] = 2
        c["vdist"] = draw(st.sampled_from(["normal", "laplace", "logistic", "gumbel"]))
    return c


def strategy(tier):
    return case()


def single_peaked_axis_exists(rankings, cands):
    """Is there one left-right order of the candidates on which every complete ranking is
    single-peaked (each top-k set is an interval of the axis)?"""
    for axis in itertools.permutations(cands):
        pos = {c: i for i, c in enumerate(axis)}
        ok = True
        for r in rankings:
            lo = hi = pos[r[0]]
            for c in r[1:]:
                p = pos[c]
                if p == lo - 1:
                    lo = p
                elif p == hi + 1:
                    hi = p
                else:
                    ok = False
                    break
            if not ok:
                break
        if ok:
            return True
    return False


def check_spatial(case, out):
    import numpy as np
    import votekit.ballot_generator as bg

    model, cands, N, seed = case["model"], case["cands"], case["N"], case["seed"]
    out.label(f"model={model}")
    normal_calls = []
    with R.owned(seed) as _:
        try:
            if model == "OneDimSpatial":
                # OneDimSpatial returns no positions; its draws are observed through a recorder
                # around numpy's normal sampler (used only if the call pattern is the documented one)
                orig_normal = np.random.normal

                def rec_normal(*a, **k):
                    v = orig_normal(*a, **k)
                    normal_calls.append(v)
                    return v

                np.random.normal = rec_normal
                try:
                    res = bg.OneDimSpatial(candidates=cands).generate_profile(N)
                finally:
                    np.random.normal = orig_normal
            elif model == "Spatial":
                d = case["dim"]
                vk = {"low": 0.0, "high": 1.0, "size": d} if case["vdist"] == "uniform" else {"loc": 0.5, "scale": 0.4, "size": d}
                dist = (lambda a, b: float(np.sum(np.abs(a - b)))) if case["metric"] == "l1" else None
                kw = {} if dist is None else {"distance": dist}
                g = bg.Spatial(candidates=cands, voter_dist=getattr(np.random, case["vdist"]), voter_dist_kwargs=vk,
                               candidate_dist=np.random.uniform, candidate_dist_kwargs={"low": 0.0, "high": 1.0, "size": d}, **kw)
                res = g.generate_profile(N)
            else:
                g = bg.ClusteredSpatial(candidates=cands, voter_dist=getattr(np.random, case["vdist"]),
                                        voter_dist_kwargs={"loc": 0, "scale": 0.5, "size": 2},
                                        candidate_dist=np.random.uniform,
                                        candidate_dist_kwargs={"low": 0.0, "high": 1.0, "size": 2})
                res = g.generate_profile_with_dict(dict(case["per_cand"]))
                N = sum(case["per_cand"].values())
        except Exception as exc:  # noqa: BLE001
            out.fail("spatial", type(exc).__name__, f"{model}: {exc!r}")
            return
    if model == "OneDimSpatial":
        prof = res
        rankings = [tuple(str(next(iter(s))) for s in b.ranking) for b in prof.ballots]
        if any(sorted(r) != sorted(cands) for r in rankings):
            out.fail("spatial", "incomplete_ranking", f"{rankings[:3]}")
        elif len(cands) <= 5 and not single_peaked_axis_exists(rankings, cands):
            out.fail("spatial", "not_single_peaked", f"no common axis for {rankings}")
        n = len(cands)
        scal = [v for v in normal_calls if np.ndim(v) == 0]
        arrs = [v for v in normal_calls if np.ndim(v) == 1]
        if len(normal_calls) == n + 1 and len(scal) == n and len(arrs) == 1 and len(arrs[0]) == N and np.ndim(normal_calls[-1]) == 1:
            cpos = dict(zip(cands, [float(x) for x in scal]))
            want = {}
            for vp in arrs[0]:
                key = tuple(sorted(cands, key=lambda c: abs(cpos[c] - float(vp))))
                want[key] = want.get(key, 0) + 1
            got = {}
            for b in prof.ballots:
                key = tuple(str(next(iter(s))) for s in b.ranking)
                got[key] = got.get(key, 0) + int(b.weight)
            if got != want:
                out.fail("spatial", "ranking_not_by_distance", f"OneDimSpatial: profile {got} but the sampled positions give {want}")
            out.label("onedim_positions_observed")
        out.nontrivial = len(cands) >= 3 and len(set(rankings)) >= 2
        return
    prof, cpos, vpos = res
    want = {}
    metric = (lambda a, b: float(np.sum(np.abs(a - b)))) if case.get("metric") == "l1" else (
        lambda a, b: float(np.linalg.norm(np.asarray(a) - np.asarray(b))))
    tie = False
    for v in vpos:
        d = {c: metric(np.asarray(v), np.asarray(cpos[c])) for c in cands}
        vals = sorted(d.values())
        if any(abs(x - y) < 1e-12 for x, y in zip(vals, vals[1:])):
            tie = True
        key = tuple(sorted(cands, key=lambda c: d[c]))
        want[key] = want.get(key, 0) + 1
    got = {}
    for b in prof.ballots:
        key = tuple(str(next(iter(s))) for s in b.ranking)
        got[key] = got.get(key, 0) + int(b.weight)
    if len(vpos) != N:
        out.fail("spatial", "voter_count", f"{len(vpos)} voter positions for N={N}")
    if not tie and got != want:
        out.fail("spatial", "ranking_not_by_distance", f"{model}: profile {got} but positions give {want}")
    out.nontrivial = len(cands) >= 3 and len(want) >= 2


# =====================================================================================================
# part 2: distribution laws (extra, statistical)
# =====================================================================================================


def pl_law(weights, length=None):
    """Plackett-Luce law over orderings (prefixes of `length`) of the keys of `weights`."""
    cands = [c for c, w in weights.items() if w > 0]
    L = len(cands) if length is None else min(length, len(cands))
    law = {}
    for perm in itertools.permutations(cands, L):
        p, rest = Fraction(1), sum((weights[c] for c in cands), Fraction(0))
        for c in perm:
            p *= weights[c] / rest
            rest -= weights[c]
        law[perm] = p
    return law


def norm_iv(iv):
    w = {c: C.frac(v) for c, v in iv.items() if C.frac(v) > 0}
    t = sum(w.values(), Fraction(0))
    return {c: v / t for c, v in w.items()}


def combined_iv(params, bloc):
    out = {}
    for b2, iv in params["intervals"][bloc].items():
        co = C.frac(params["cohesion"][bloc][b2])
        for c, v in norm_iv(iv).items():
            if co * v > 0:
                out[c] = co * v
    t = sum(out.values(), Fraction(0))
    return {c: v / t for c, v in out.items()}


def slate_type_law_pl(params, bloc):
    """slate-PL: at each position a slate is drawn with probability proportional to its cohesion
    among the slates that still have candidates left."""
    sizes = {b2: len(norm_iv(iv)) for b2, iv in params["intervals"][bloc].items()}
    coh = {b2: C.frac(v) for b2, v in params["cohesion"][bloc].items()}
    law = {}

    def rec(seq, left, p):
        if all(v == 0 for v in left.values()):
            law[tuple(seq)] = law.get(tuple(seq), Fraction(0)) + p
            return
        avail = [b for b in left if left[b] > 0]
        tot = sum((coh[b] for b in avail), Fraction(0))
        if tot == 0:
            # only slates with cohesion 0 are left: the rest of the ballot is a uniformly random
            # arrangement of their remaining slots
            items = [b for b in avail for _ in range(left[b])]
            arr = set(itertools.permutations(items))
            for a in arr:
                law[tuple(seq + list(a))] = law.get(tuple(seq + list(a)), Fraction(0)) + p / len(arr)
            return
        for b in avail:
            if coh[b] > 0:
                rec(seq + [b], {**left, b: left[b] - 1}, p * coh[b] / tot)

    rec([], dict(sizes), Fraction(1))
    return law


def slate_type_law_bt(params, bloc, blocs):
    i = blocs.index(bloc)
    if len(blocs) == 1:
        n = len(norm_iv(params["intervals"][bloc][bloc]))
        return {tuple([bloc] * n): Fraction(1)}
    opp = blocs[(i + 1) % 2]
    co = C.frac(params["cohesion"][bloc][bloc])
    n_own = len(norm_iv(params["intervals"][bloc][bloc]))
    n_opp = len(norm_iv(params["intervals"][bloc][opp]))
    raw = {}
    for t in set(itertools.permutations([bloc] * n_own + [opp] * n_opp)):
        own_above = sum(t[k + 1:].count(opp) for k, x in enumerate(t) if x == bloc)
        raw[t] = co ** own_above * (1 - co) ** (n_own * n_opp - own_above)
    tot = sum(raw.values(), Fraction(0))
    return {t: v / tot for t, v in raw.items()}


def full_slate_law(type_law, params, bloc):
    """type law x independent PL fill-in per slate -> law over full rankings."""
    per = {b2: pl_law(norm_iv(iv)) for b2, iv in params["intervals"][bloc].items()}
    law = {}
    for t, pt in type_law.items():
        used = [b for b in per if b in t]
        for combo in itertools.product(*[per[b].items() for b in used]):
            its = {b: list(order) for b, (order, _) in zip(used, combo)}
            p = pt
            for _, (_, pp) in zip(used, combo):
                p *= pp
            r = tuple(its[b].pop(0) for b in t)
            law[r] = law.get(r, Fraction(0)) + p
    return law


def bt_law(weights):
    raw = {}
    cands = sorted(weights)
    for perm in itertools.permutations(cands):
        p = Fraction(1)
        for i in range(len(perm)):
            for j in range(i + 1, len(perm)):
                p *= weights[perm[i]] / (weights[perm[i]] + weights[perm[j]])
        raw[perm] = p
    t = sum(raw.values(), Fraction(0))
    return {k: v / t for k, v in raw.items()}


def ranking_keys(profile, zero=frozenset()):
    """ranking (tuple of names, zero-support tie dropped) -> count."""
    m = {}
    for b in profile.ballots:
        key = tuple(str(next(iter(s))) for s in b.ranking if len(s) == 1 and str(next(iter(s))) not in zero)
        m[key] = m.get(key, 0) + int(b.weight)
    return m


def fl_law(law):
    return {k: float(v) for k, v in law.items()}


def cambridge_pattern_law(own_letter, first_letter, n_own, n_opp):
    """Historical ballot types that start with `first_letter`, projected onto the available slate
    sizes (a letter is dropped once its slate is used up), as seen from a bloc whose historical
    letter is `own_letter`."""
    import os

    src = os.environ.get("VK_SRC", "/repo/src")
    with open(os.path.join(src, "votekit", "data", "Cambridge_09to17_ballot_types.p"), "rb") as f:
        freq = pickle.load(f)
    law, tot = {}, 0
    for t, n in freq.items():
        if t[0] != first_letter:
            continue
        left = {own_letter: n_own, ("C" if own_letter == "W" else "W"): n_opp}
        pat = []
        for x in t:
            if left.get(x, 0) > 0:
                pat.append("own" if x == own_letter else "opp")
                left[x] -= 1
        law[tuple(pat)] = law.get(tuple(pat), 0) + n
        tot += n
    return {k: Fraction(v, tot) for k, v in law.items()}


def run_law_job(args):
    """One parameter set of one model: generate N ballots, return a list of test results."""
    model, params, N, seed, extra = args
    import votekit.ballot_generator as bg

    tests = []  # dicts: name, obs, law (floats), method
    blocs = list(params["slates"]) if params else []

    def add(name, obs, law, method="chi2"):
        tests.append({"name": name, "obs": obs, "law": fl_law(law), "method": method})

    def mk(cls_name, params_, **ex):
        """The generator under test; a decoy of the same class over the same bloc names with other
        numbers is constructed after it and dropped before it is used."""
        g_ = G.make(cls_name, params_, **ex)
        try:
            G.make(cls_name, G.decoy(params_), **ex)
        except Exception:  # noqa: BLE001
            pass
        return g_

    with R.owned(seed) as _:
        if model == "ImpartialCulture":
            cands = extra["cands"]
            prof = bg.ImpartialCulture(candidates=cands).generate_profile(N)
            law = {p: Fraction(1, math.factorial(len(cands))) for p in itertools.permutations(cands)}
            add("IC_uniform", ranking_keys(prof), law)
        elif model in ("name_PlackettLuce", "short_name_PlackettLuce"):
            ex = {"ballot_length": extra["ballot_length"]} if model.startswith("short") else {}
            g = mk(model, params, **ex)
            byb, _agg = g.generate_profile(N, by_bloc=True)
            for b in blocs:
                w = combined_iv(params, b)
                zero = {c for s in params["slates"].values() for c in s} - set(w)
                add(f"{model}:{b}", ranking_keys(byb[b], zero), pl_law(w, extra.get("ballot_length")))
        elif model == "name_Cumulative":
            g = mk(model, params, num_votes=extra["num_votes"])
            byb, _agg = g.generate_profile(N, by_bloc=True)
            k = extra["num_votes"]
            for b in blocs:
                w = combined_iv(params, b)
                cands = sorted(w)
                law = {}
                for combo in itertools.product(range(k + 1), repeat=len(cands)):
                    if sum(combo) != k:
                        continue
                    p = Fraction(math.factorial(k))
                    for c, n_ in zip(cands, combo):
                        p *= w[c] ** n_ / math.factorial(n_)
                    law[tuple((c, n_) for c, n_ in zip(cands, combo) if n_)] = p
                obs = {}
                for bl in byb[b].ballots:
                    key = tuple(sorted((str(c), int(v)) for c, v in (bl.scores or {}).items()))
                    obs[key] = obs.get(key, 0) + int(bl.weight)
                add(f"name_Cumulative:{b}", obs, law)
        elif model in ("slate_PlackettLuce", "slate_BradleyTerry", "slate_BradleyTerry_MCMC"):
            g = mk(model.replace("_MCMC", ""), params)
            kw = {"deterministic": False} if model.endswith("MCMC") else {}
            byb, _agg = g.generate_profile(N, by_bloc=True, **kw)
            for b in blocs:
                tl = slate_type_law_pl(params, b) if model == "slate_PlackettLuce" else slate_type_law_bt(params, b, blocs)
                zero = {c for b2, iv in params["intervals"][b].items() for c, v in iv.items() if C.frac(v) == 0}
                if model.endswith("MCMC"):
                    # chain over ballot types: compare the slate pattern only (autocorrelated -> TV)
                    owner = {c: b2 for b2, cs in params["slates"].items() for c in cs}
                    obs = {}
                    for r, n_ in ranking_keys(byb[b], zero).items():
                        t = tuple(owner[c] for c in r)
                        obs[t] = obs.get(t, 0) + n_
                    add(f"{model}:types:{b}", obs, tl, "tv")
                else:
                    add(f"{model}:{b}", ranking_keys(byb[b], zero), full_slate_law(tl, params, b))
        elif model in ("name_BradleyTerry", "name_BradleyTerry_MCMC"):
            g = mk("name_BradleyTerry", params)
            fn = g.generate_profile_MCMC if model.endswith("MCMC") else g.generate_profile
            byb, _agg = fn(N, by_bloc=True)
            for b in blocs:
                w = combined_iv(params, b)
                zero = {c for s in params["slates"].values() for c in s} - set(w)
                add(f"{model}:{b}", ranking_keys(byb[b], zero), bt_law(w), "tv" if model.endswith("MCMC") else "chi2")
        elif model in ("AlternatingCrossover", "CambridgeSampler"):
            g = mk(model, params)
            byb, _agg = g.generate_profile(N, by_bloc=True)
            for i, b in enumerate(blocs):
                opp = blocs[(i + 1) % 2]
                for slate in (b, opp):
                    members = set(params["slates"][slate])
                    w = norm_iv(params["intervals"][b][slate])
                    if model == "AlternatingCrossover":
                        # order of one slate's candidates on the ballot ~ PL from the bloc's interval
                        obs = {}
                        for r, n_ in ranking_keys(byb[b]).items():
                            key = tuple(c for c in r if c in members)
                            obs[key] = obs.get(key, 0) + n_
                        n_listed = len(next(iter(obs))) if obs else 0
                        lens = {len(k) for k in obs}
                        if len(lens) == 1:
                            add(f"AC:{b}:order_of_{slate}", obs, pl_law(w, n_listed))
                    else:
                        # first-listed candidate of the slate ~ the bloc's interval for that slate
                        obs = {}
                        for r, n_ in ranking_keys(byb[b]).items():
                            first = next((c for c in r if c in members), None)
                            if first is not None:
                                obs[(first,)] = obs.get((first,), 0) + n_
                        if obs:
                            add(f"Cambridge:{b}:first_of_{slate}", obs, {(c,): v for c, v in w.items()})
                if model == "CambridgeSampler":
                    # slate pattern of bloc-first / opposing-first ballots ~ projected historical table
                    hist = {g.W_bloc: "W", g.C_bloc: "C"}
                    owner = {c: ("own" if c in params["slates"][b] else "opp") for s in params["slates"].values() for c in s}
                    n_own, n_opp = len(params["slates"][b]), len(params["slates"][opp])
                    for first, lab in (("own", "bloc_first"), ("opp", "cross")):
                        obs = {}
                        for r, n_ in ranking_keys(byb[b]).items():
                            pat = tuple(owner[c] for c in r)
                            if pat and pat[0] == first:
                                obs[pat] = obs.get(pat, 0) + n_
                        if sum(obs.values()) >= 200:
                            law = cambridge_pattern_law(hist[b], hist[b] if first == "own" else hist[opp], n_own, n_opp)
                            add(f"Cambridge:{b}:{lab}_patterns", obs, law)
    if params and len(blocs) >= 2 and "byb" in locals():
        # the profile is a mixture of the blocs' laws in the proportions given by name
        add(f"{model}:bloc_shares", {(b,): int(byb[b].total_ballot_wt) for b in blocs},
            {(b,): C.frac(params["prop"][b]) for b in blocs})
    out = []
    for t in tests:
        n = sum(t["obs"].values())
        if n == 0:
            continue
        pvals = [v for v in t["law"].values() if v > 0]
        ratio = max(pvals) / min(pvals) if pvals else 1.0
        if t["method"] == "chi2":
            g_ = stats.gof(t["obs"], t["law"])
            out.append({"name": t["name"], "method": "chi2", "n": n, "p": g_["p"], "stat": g_["stat"], "dof": g_["dof"],
                        "impossible": [list(x) for x in g_["impossible"]], "cells": len(t["law"]), "ratio": ratio})
        else:
            out.append({"name": t["name"], "method": "tv", "n": n, "tv": stats.tv(t["obs"], t["law"]),
                        "cells": len(t["law"]), "ratio": ratio})
    return {"model": model, "params": params, "N": N, "seed": seed, "extra": extra, "tests": out}


def gen_law_specs(seed, tier):
    rnd = _random.Random(seed * 7907 + 5)
    per = 2 if tier == "quick" else 12
    N = 20000 if tier == "quick" else 50000
    specs = []

    def skew(cands):
        base = [Fraction(6, 10), Fraction(3, 10), Fraction(1, 10), Fraction(1, 20)][: len(cands)]
        rnd.shuffle(base)
        if rnd.random() < 0.4:
            base = [b * rnd.choice([1, 2, Fraction(1, 2)]) for b in base]
        return {c: C.enc(b) for c, b in zip(cands, base)}

    def mk_params(nb, sizes, cohesions, name_model=False, kk=0):
        blocs = ["W", "C"][:nb]
        slates = {b: [f"{b}{i + 1}" for i in range(sizes[j])] for j, b in enumerate(blocs)}
        props = {"W": C.enc(Fraction(rnd.choice([1, 2, 3]), 4))} if nb == 2 else {"W": 1}
        if nb == 2:
            props["C"] = C.enc(1 - C.frac(props["W"]))
        coh = {}
        for j, b in enumerate(blocs):
            if nb == 1:
                coh[b] = {b: 1}
            else:
                o = blocs[1 - j]
                coh[b] = {b: C.enc(cohesions[j]), o: C.enc(1 - cohesions[j])}
        # inner dictionaries in the blocs' order for every bloc (as the repository's own tests write
        # them), or own slate first
        own_first = rnd.random() < 0.3
        iv = {b: {o: skew(slates[o]) for o in ([b] + [x for x in blocs if x != b] if own_first else blocs)} for b in blocs}
        if nb == 2 and name_model:
            # same parameter set, inner dictionaries written in different key orders: for one bloc the
            # cohesion dictionary always lists the slates in the opposite order to its intervals
            b = rnd.choice(blocs)
            coh[b] = {k: coh[b][k] for k in reversed(list(iv[b]))}
        if nb == 2:
            # same parameter set again: the four top-level dictionaries list the blocs in different
            # orders (every second spec of a model has bloc_voter_prop reversed against the slates)
            bits = rnd.randrange(1, 8) | (1 if kk % 2 == 0 else 0)
            if bits & 1:
                props = {k: props[k] for k in reversed(list(props))}
            if bits & 2:
                coh = {k: coh[k] for k in reversed(list(coh))}
            if bits & 4:
                iv = {k: iv[k] for k in reversed(list(iv))}
        return {"slates": slates, "prop": props, "cohesion": coh, "intervals": iv}

    def three_bloc_params(rnd_):
        blocs = ["W", "C", "H"]
        slates = {"W": ["W1", "W2"], "C": ["C1"], "H": ["H1"]}
        coh = {}
        for j, b in enumerate(blocs):
            # one bloc always has cohesion exactly 0 towards one slate
            v = [Fraction(7, 10), Fraction(3, 10), Fraction(0)] if j == 0 else [Fraction(6, 10), Fraction(3, 10), Fraction(1, 10)]
            rnd_.shuffle(v)
            coh[b] = {b2: C.enc(x) for b2, x in zip(blocs, v)}
        iv = {b: {b2: skew(slates[b2]) for b2 in [b] + [x for x in blocs if x != b]} for b in blocs}
        return {"slates": slates, "prop": {"W": "1/2", "C": "1/4", "H": "1/4"}, "cohesion": coh, "intervals": iv}

    coh_choices = [Fraction(7, 10), Fraction(1, 4), Fraction(3, 5), Fraction(1, 3), Fraction(9, 10)]
    for model in LAW_MODELS:
        for k in range(per):
            sd = seed * 100000 + len(specs)
            if model == "ImpartialCulture":
                specs.append((model, None, N, sd, {"cands": ["A", "B", "C", "D"][: rnd.choice([3, 4])]}))
                continue
            cohs = [rnd.choice(coh_choices), rnd.choice(coh_choices)]
            if model in ("name_PlackettLuce", "name_BradleyTerry", "name_Cumulative", "short_name_PlackettLuce"):
                nb = 2 if k % 2 == 0 else 1
                sizes = [2, 2] if nb == 2 else [rnd.choice([3, 4])]
                if model.startswith("name_BradleyTerry_MCMC"):
                    sizes = [3]
            elif model == "name_BradleyTerry_MCMC":
                nb, sizes = 1, [3]
            elif model in ("slate_BradleyTerry_MCMC",):
                nb, sizes = 2, [2, 1] if k % 2 else [2, 2]
                cohs = [rnd.choice([Fraction(7, 10), Fraction(1, 4)]), rnd.choice([Fraction(1, 3), Fraction(3, 5)])]
            elif model in ("AlternatingCrossover", "CambridgeSampler"):
                nb, sizes = 2, [2, 2] if model == "AlternatingCrossover" or k % 2 else [3, 2]
            else:
                nb, sizes = 2, rnd.choice([[2, 2], [3, 1], [2, 1]])
            p = mk_params(nb, sizes, cohs, name_model=model in ("name_PlackettLuce", "name_BradleyTerry", "name_Cumulative", "short_name_PlackettLuce", "name_BradleyTerry_MCMC"), kk=k)
            if model == "slate_PlackettLuce" and k % 2 == 1:
                p = three_bloc_params(rnd)
            extra = {}
            if model == "short_name_PlackettLuce":
                extra["ballot_length"] = rnd.choice([1, 2])
            if model == "name_Cumulative":
                extra["num_votes"] = rnd.choice([2, 3])
            if model == "CambridgeSampler" and C.frac(p["prop"]["W"]) < Fraction(1, 2):
                p["prop"]["W"], p["prop"]["C"] = p["prop"]["C"], p["prop"]["W"]
            n_here = (120000 if tier == "quick" else 200000) if model.endswith("MCMC") else N
            specs.append((model, p, n_here, sd, extra))
    return specs


def judge(results, alpha):
    fails, n_tests, min_p, max_tv = [], 0, 1.0, 0.0
    for r in results:
        for t in r["tests"]:
            n_tests += 1
            bad = None
            if t["method"] == "chi2":
                min_p = min(min_p, t["p"])
                if t["p"] < alpha:
                    bad = f"p={t['p']:.3g} stat={t['stat']:.1f} dof={t['dof']} n={t['n']} impossible={t['impossible'][:3]}"
            else:
                max_tv = max(max_tv, t["tv"])
                if t["tv"] > TV_BOUND:
                    bad = f"total variation {t['tv']:.3f} > {TV_BOUND} over {t['cells']} states, n={t['n']}"
            if bad:
                case_ = {"kind": "law", "model": r["model"], "params": r["params"], "N": r["N"], "seed": r["seed"], "extra": r["extra"]}
                fails.append((case_, [{"subcheck": f"law_{r['model']}", "failure": t["method"], "callee": None,
                                       "detail": f"{t['name']}: {bad}"}]))
    return fails, n_tests, min_p, max_tv


def extra(tier, seed, pool):
    specs = gen_law_specs(seed, tier)
    results = pool.map(run_law_job, specs, chunksize=1)
    n_tests = sum(len(r["tests"]) for r in results)
    alpha = stats.ALPHA_RUN / max(1, n_tests)
    fails, n_tests, min_p, max_tv = judge(results, alpha)
    nt = [C.case_hash({"m": r["model"], "p": r["params"], "s": r["seed"], "t": t["name"]})
          for r in results for t in r["tests"] if t["ratio"] >= 3]
    samples = [{"kind": "law", "model": r["model"], "params": r["params"], "N": r["N"],
                "tests": [{k: t[k] for k in ("name", "method", "n", "cells") if k in t} for t in r["tests"]]}
               for r in results[:3]]
    return {"evaluations": n_tests, "fails": fails, "samples": samples, "nontrivial_hashes": nt,
            "coverage": {"law_parameter_sets": len(specs), "law_tests": n_tests, "per_test_alpha": alpha,
                         "min_p": min_p, "max_tv_mcmc": max_tv, "ballots_per_set": specs[0][2],
                         "models": sorted({s[0] for s in specs})}}


def check(case):
    out = Outcome()
    if case["kind"] == "law":
        r = run_law_job((case["model"], case["params"], case["N"], case["seed"], case["extra"]))
        fails, _, _, _ = judge([r], stats.ALPHA_RUN / 100)
        for _, fs in fails:
            out.fail(fs[0]["subcheck"], fs[0]["failure"], fs[0]["detail"])
        return out
    check_spatial(case, out)
    return out
