"""C15 - closed-form model probabilities equal their definitions."""

from __future__ import annotations

import itertools
from fractions import Fraction

from hypothesis import strategies as st

from .. import cases as C
from .. import gen as G
from ..run import Outcome

ID = "C15"
BUDGET = {"quick": 20000, "thorough": 200000}
FUZZ = {"thorough": 4000}  # coverage-guided stage: libFuzzer runs per worker (x16), see vk/fuzz.py
RULE = (
    "Hypothesis: preference intervals over 1-7 candidates (supports as exact rationals spanning "
    "1e-6..1e3, exact zeros), cohesion / proportion vectors in the open interval and at its ends, "
    "1-3 blocs (1-2 for slate-Bradley-Terry), slate sizes <= 3.  Oracle: exact-rational evaluation of "
    "the defining formulas by the harness, compared with the library's floats to relative 1e-9 "
    "(interval normalisation and zero sets; combination; name-BT table; slate-BT ballot-type table "
    "over distinct orderings; each table sums to 1; pref_interval_by_bloc of the name models).  "
    "Non-trivial = >= 3 candidates with pairwise distinct supports, or a cohesion != 1/2 with both "
    "slates non-empty.  Distinct = SHA-1 of canonical case JSON."
)
ASSUMPTIONS = ["library floats are compared with exact rationals to relative 1e-9"]


@st.composite
def case(draw):
    kind = draw(st.sampled_from(["interval", "combine", "name_BT", "name_BT", "slate_BT", "slate_BT", "name_models"]))
    c = {"kind": kind}
    if kind == "interval":
        n = draw(st.integers(1, 7))
        c["supports"] = draw(G.supports([f"c{i}" for i in range(n)]))
        c["prenormalised"] = draw(st.booleans())
        if draw(st.integers(0, 3)) == 0:
            # dyadic supports without zeros: rescaled they add up to exactly 1.0 in floating point
            parts = draw(st.lists(st.sampled_from([1, 1, 2, 4]), min_size=1, max_size=4))
            c["supports"] = {f"c{i}": p for i, p in enumerate(parts + [8 - sum(parts) % 8 if sum(parts) % 8 else 8])}
    elif kind == "combine":
        k = draw(st.integers(1, 3))
        c["intervals"] = [draw(G.supports([f"s{j}c{i}" for i in range(draw(st.integers(1, 3)))])) for j in range(k)]
        c["props"] = list(draw(G.simplex([str(j) for j in range(k)])).values())
    elif kind in ("name_BT", "name_models"):
        nb = draw(st.integers(1, 3))
        c["params"] = draw(G.params(n_blocs=nb, max_slate=3 if nb < 3 else 2))
        c["model"] = draw(st.sampled_from(["name_PlackettLuce", "name_Cumulative", "short_name_PlackettLuce"])) if kind == "name_models" else "name_BradleyTerry"
    else:
        nb = draw(st.integers(1, 2))
        c["params"] = draw(G.params(n_blocs=nb, max_slate=3))
    return c


def strategy(tier):
    return case()


def close(x, want):
    want = Fraction(want)
    try:
        x = Fraction(x)
    except (ValueError, OverflowError):  # nan / inf is never the defined value
        return False
    return abs(x - want) <= Fraction(1, 10**9) * max(abs(want), Fraction(1, 10**300))


def norm(supports):
    s = {c: C.frac(v) for c, v in supports.items()}
    nz = {c: v for c, v in s.items() if v > 0}
    tot = sum(nz.values(), Fraction(0))
    return {c: v / tot for c, v in nz.items()}, {c for c, v in s.items() if v == 0}


def combined(params, bloc):
    """Exact combined interval of `bloc`: each slate's normalised interval times its cohesion."""
    out, zero = {}, set()
    for b2, iv in params["intervals"][bloc].items():
        nz, z = norm(iv)
        zero |= z
        co = C.frac(params["cohesion"][bloc][b2])
        for c, v in nz.items():
            if co * v > 0:
                out[c] = co * v
            else:
                zero.add(c)
    tot = sum(out.values(), Fraction(0))
    return {c: v / tot for c, v in out.items()}, zero


def cmp_interval(out, sub, pi, want, zero, all_cands, check_all=True):
    got = dict(pi.interval)
    if set(got) != set(want):
        out.fail(sub, "support_set", f"interval over {sorted(got)}, definition {sorted(want)}")
        return
    for c in want:
        if not close(got[c], want[c]):
            out.fail(sub, "value", f"{c}: {got[c]!r} vs {float(want[c])!r}")
            return
    if set(pi.zero_cands) != set(zero) or set(pi.non_zero_cands) != set(want) or (
            check_all and set(pi.candidates) != set(all_cands)):
        out.fail(sub, "candidate_sets", f"zero {set(pi.zero_cands)} / non-zero {set(pi.non_zero_cands)} / all {set(pi.candidates)} vs {zero} / {set(want)} / {set(all_cands)}")
    if not close(sum(got.values()), 1):
        out.fail(sub, "not_normalised", f"sums to {sum(got.values())!r}")


def check(case):
    from votekit.pref_interval import PreferenceInterval, combine_preference_intervals

    out = Outcome()
    kind = case["kind"]
    out.label(f"kind={kind}")
    if kind == "interval":
        sup = case["supports"]
        want, zero = norm(sup)
        given = {c: G.fl(v) for c, v in sup.items()}
        if case.get("prenormalised") and not zero:
            given = {c: float(v) for c, v in want.items()}  # already sums to one (exactly, when dyadic)
        pi = PreferenceInterval(given)
        cmp_interval(out, "interval", pi, want, zero, sup)
        # the interval is a value: what the caller does with the dictionary afterwards is not its business
        for c in list(given):
            given[c] = given[c] * 3 + 1
        given["Zz"] = 5.0
        if not out.fails:
            cmp_interval(out, "interval_after_caller_edits_dict", pi, want, zero, sup)
        out.nontrivial = len(set(want.values())) >= 3
        return out
    if kind == "combine":
        ivs, props = case["intervals"], [C.frac(p) for p in case["props"]]
        pis = [PreferenceInterval({c: G.fl(v) for c, v in iv.items()}) for iv in ivs]
        try:
            comb = combine_preference_intervals(pis, [float(p) for p in props])
        except Exception as exc:  # noqa: BLE001
            out.fail("combine", type(exc).__name__, repr(exc))
            return out
        want, zero, allc = {}, set(), set()
        for iv, p in zip(ivs, props):
            nz, z = norm(iv)
            zero |= z
            allc |= set(iv)
            for c, v in nz.items():
                if p * v > 0:
                    want[c] = p * v
                else:
                    zero.add(c)
        tot = sum(want.values(), Fraction(0))
        want = {c: v / tot for c, v in want.items()}
        got = dict(comb.interval)
        if set(got) != set(want) or any(not close(got[c], want[c]) for c in want):
            out.fail("combine", "value", f"{got} vs { {c: float(v) for c, v in want.items()} }")
        if set(comb.zero_cands) != zero:
            out.fail("combine", "zero_cands", f"{set(comb.zero_cands)} vs {zero}")
        out.nontrivial = len(ivs) >= 2 and len(want) >= 3
        return out
    params = case["params"]
    blocs = list(params["slates"])
    if kind in ("name_BT", "name_models"):
        model = case["model"]
        extra = {"num_votes": 2} if model == "name_Cumulative" else ({"ballot_length": 1} if model == "short_name_PlackettLuce" else {})
        try:
            g = G.make(model, params, **extra)
        except Exception as exc:  # noqa: BLE001
            out.fail("construct", type(exc).__name__, f"{model} {params}: {exc!r}")
            return out
        nt = False
        for b in blocs:
            want, zero = combined(params, b)
            allc = [c for s in params["slates"].values() for c in s]
            # (the `candidates` attribute of a *combined* interval is not part of the statement)
            cmp_interval(out, "pref_interval_by_bloc", g.pref_interval_by_bloc[b], want, zero, allc, check_all=False)
            if model != "name_BradleyTerry":
                nt = nt or len(set(want.values())) >= 3
                continue
            pdf = g.pdfs_by_bloc[b]
            cands = sorted(want)
            table = {}
            for perm in itertools.permutations(cands):
                pr = Fraction(1)
                for i in range(len(perm)):
                    for j in range(i + 1, len(perm)):
                        pr *= want[perm[i]] / (want[perm[i]] + want[perm[j]])
                table[perm] = pr
            tot = sum(table.values(), Fraction(0))
            if set(pdf) != set(table):
                out.fail("name_BT_pdf", "support", f"bloc {b}: {len(pdf)} rankings in the table, {len(table)} permutations of {cands}")
                continue
            if not close(sum(pdf.values()), 1):
                out.fail("name_BT_pdf", "not_normalised", f"bloc {b}: sums to {sum(pdf.values())!r}")
            for perm, pr in table.items():
                if not close(pdf[perm], pr / tot):
                    out.fail("name_BT_pdf", "value", f"bloc {b}: P{perm} = {pdf[perm]!r}, definition {float(pr / tot)!r}; interval { {c: float(v) for c, v in want.items()} }")
                    break
            nt = nt or len(set(want.values())) >= 3
        out.nontrivial = nt
        return out
    # ---- slate BT ----------------------------------------------------------------------------------
    try:
        g = G.make("slate_BradleyTerry", params)
    except Exception as exc:  # noqa: BLE001
        out.fail("construct", type(exc).__name__, f"slate_BradleyTerry {params}: {exc!r}")
        return out
    nt = False
    for i, b in enumerate(blocs):
        counts = {b2: len(norm(params["intervals"][b][b2])[0]) for b2 in blocs}
        pdf = g.ballot_type_pdf[b]
        if len(blocs) == 1:
            want = {tuple([b] * counts[b]): Fraction(1)}
        else:
            opp = blocs[(i + 1) % 2]
            co = C.frac(params["cohesion"][b][b])
            items = [b] * counts[b] + [opp] * counts[opp]
            types = set(itertools.permutations(items))
            raw = {}
            for t in types:
                own_above = sum(t[k + 1:].count(opp) for k, x in enumerate(t) if x == b)
                opp_above = counts[b] * counts[opp] - own_above
                raw[t] = co ** own_above * (1 - co) ** opp_above
            tot = sum(raw.values(), Fraction(0))
            if tot == 0:
                continue
            want = {t: v / tot for t, v in raw.items()}
            nt = nt or (co != Fraction(1, 2) and counts[b] and counts[opp])
        if set(pdf) != set(want):
            out.fail("slate_BT_pdf", "support", f"bloc {b}: table over {len(pdf)} types, {len(want)} distinct orderings")
            continue
        if not close(sum(pdf.values()), 1):
            out.fail("slate_BT_pdf", "not_normalised", f"bloc {b}: sums to {sum(pdf.values())!r}")
        for t, pr in want.items():
            if not close(pdf[t], pr):
                out.fail("slate_BT_pdf", "value", f"bloc {b}: P{t} = {pdf[t]!r}, definition {float(pr)!r} (cohesion {params['cohesion'][b][b]})")
                break
    out.nontrivial = bool(nt)
    return out
