"""C05 - score-ballot elections enforce their limits and elect the top m totals."""

from __future__ import annotations

from fractions import Fraction

from hypothesis import strategies as st

from .. import cases as C
from .. import elect as E
from .. import strategies as S
from ..ref import scoring as refs
from ..run import Outcome
from .c01 import score_ballots, score_totals, straddle

ID = "C05"
BUDGET = {"quick": 40000, "thorough": 400000}
FUZZ = {"thorough": 6000}  # coverage-guided stage: libFuzzer runs per worker (x16), see vk/fuzz.py
EPS = Fraction(1, 10**6)
RULE = (
    "Hypothesis: class in {Rating, Approval, Limited, Cumulative, BlocPlurality, GeneralRating} x "
    "m x per-candidate limit L x budget k x tiebreak in {None, random} x a score profile valid by "
    "construction (1-7 ballots over 1-5 candidates, rational scores and weights, candidates "
    "scored by nobody, duplicated ballots for ties) and, from it, ONE single-violation variant at "
    "a generated ballot index: scores removed (None / all zero), one negative score, one score of "
    "L + 1e-6, a total of k + 1e-6; and the boundary-exact variants (== L, == k) which must be "
    "accepted; in a third of the cases the same ballots are first counted for a longer candidate "
    "list.  Non-trivial = the perturbed ballot is not the first one, or the variant is a "
    "smallest-margin / boundary one, or a candidate is scored by nobody.  Distinct = SHA-1 of case JSON."
)
ASSUMPTIONS = [
    "scores are passed as exact Fractions, so 1e-6 margins are not rounded away by Ballot's float handling",
]


@st.composite
def case(draw):
    rule = draw(st.sampled_from(["Rating", "Approval", "Limited", "Cumulative", "BlocPlurality", "GeneralRating"]))
    cands = draw(S.cand_names(1, 5))
    n = len(cands)
    m = draw(st.integers(1, n))
    cfg = {"m": m, "tiebreak": draw(st.sampled_from([None, "random"]))}
    L, k = 1, None
    if rule == "Rating":
        L = draw(st.sampled_from([1, 2, 5, "1/2", "7/3"]))
        cfg["L"] = L
    elif rule == "GeneralRating":
        L = draw(st.sampled_from([1, 2, "1/2", 3]))
        cfg["L"] = L
        if draw(st.booleans()):
            k = C.enc(C.frac(L) * draw(st.sampled_from([1, 2, Fraction(3, 2), 3])))
            cfg["k"] = k
    elif rule == "Limited":
        k = draw(st.integers(1, m))
        L = k
        cfg["k"] = k
    elif rule == "Cumulative":
        L = k = m
    elif rule == "BlocPlurality":
        kk = draw(st.one_of(st.none(), st.integers(1, n)))
        cfg["k"] = kk
        k = m if kk is None else kk
    sub = cands if draw(st.integers(0, 2)) else cands[: max(1, n - 1)]
    ballots = draw(score_ballots(sub, L, k))
    if draw(st.integers(0, 2)) == 0:
        ballots = ballots + [dict(b) for b in ballots[: draw(st.integers(1, 2))]]
    idx = draw(st.integers(0, len(ballots) - 1))
    vkind = draw(st.sampled_from(["over_L", "no_scores", "all_zero", "negative", "none", "over_k",
                                  "exact_L", "exact_k", "gross_L", "gross_k"]))
    return {"rule": rule, "cands": list(draw(st.permutations(cands))), "ballots": ballots, "cfg": cfg,
            "L": L, "k": k, "variant": {"kind": vkind, "index": idx,
                                        "cand": draw(st.sampled_from(cands))},
            "rng": draw(S.rng_spec()), "prior": draw(st.integers(0, 2)) == 0}


def strategy(tier):
    return case()


def make_variant(case):
    """Returns (ballots', expect) with expect in {'TypeError', 'accept'} or None if the variant
    cannot be built for this configuration while keeping the other limits satisfied."""
    v = case["variant"]
    kind, i, c = v["kind"], v["index"], v["cand"]
    L = C.frac(case["L"])
    k = None if case["k"] is None else C.frac(case["k"])
    cands = case["cands"]
    bl = [dict(b) for b in case["ballots"]]
    b = dict(bl[i])
    sc = {x: C.frac(y) for x, y in b["s"].items()}
    if kind == "none":
        return None
    if kind == "no_scores":
        b["s"] = None
        b["r"] = [[c]]
        bl[i] = b
        return bl, "TypeError"
    if kind == "all_zero":
        b["s"] = {x: 0 for x in sc}
        bl[i] = b
        return bl, "TypeError"
    if kind == "negative":
        sc[c] = -EPS if len(sc) % 2 else Fraction(-1)
        b["s"] = {x: C.enc(y) for x, y in sc.items()}
        bl[i] = b
        return bl, "TypeError"
    if kind in ("over_L", "gross_L", "exact_L"):
        new = {"over_L": L + EPS, "gross_L": L * 3 + 1, "exact_L": L}[kind]
        others = sum((y for x, y in sc.items() if x != c), Fraction(0))
        if kind == "exact_L" and k is not None and others + new > k:
            # make room inside the budget
            sc = {c: new}
        else:
            sc[c] = new
        b["s"] = {x: C.enc(y) for x, y in sc.items()}
        bl[i] = b
        return bl, ("accept" if kind == "exact_L" else "TypeError")
    # budget variants
    if k is None:
        return None
    target = {"over_k": k + EPS, "gross_k": k * 2 + 1, "exact_k": k}[kind]
    # distribute `target` over the candidates without exceeding L on any of them
    if L * len(cands) < target:
        return None
    new, left = {}, target
    for x in cands:
        if left <= 0:
            break
        give = min(L, left)
        new[x] = give
        left -= give
    b["s"] = {x: C.enc(y) for x, y in new.items()}
    bl[i] = b
    return bl, ("accept" if kind == "exact_k" else "TypeError")


def judge_valid(out, case, ballots, sub):
    rule, cfg, cands = case["rule"], case["cfg"], case["cands"]
    m, tb = cfg["m"], cfg["tiebreak"]
    prof = C.mk_profile(ballots, cands)
    res = E.run(rule, prof, cfg, case["rng"])
    totals = score_totals(ballots, cands)
    g = straddle(totals, m)
    if res.exc is not None:
        if res.exc_type == "ValueError" and tb is None and g is not None:
            out.label("boundary_tie_ValueError")
            return
        out.fail(sub, res.exc_type, f"{rule} {cfg} on a valid profile: {res.exc!r}", callee=res.frame)
        return
    el = res.election
    if g is not None and tb is None:
        out.fail(sub, "returned_on_unbroken_tie", f"{rule} m={m}: {g} straddle seat {m} on {totals}; elected {el.get_elected()}")
    s0 = {str(c): Fraction(v) for c, v in el.election_states[0].scores.items()}
    if s0 != totals or any(not isinstance(v, Fraction) for v in el.election_states[0].scores.values()):
        out.fail(sub, "totals", f"round-0 scores {s0}, sum of weight*score {totals}")
    flat = [str(c) for s in el.get_elected() for c in s]
    if len(flat) != m or len(set(flat)) != m:
        out.fail(sub, "winner_count", f"{rule} m={m}: elected {el.get_elected()}")
    losers = [c for c in cands if c not in flat]
    if flat and losers and min(totals[c] for c in flat) < max(totals[c] for c in losers):
        out.fail(sub, "loser_outscores_winner", f"elected {flat}, totals {totals}")
    rem = [str(c) for s in el.get_remaining() for c in s]
    if sorted(rem) != sorted(losers):
        out.fail(sub, "remaining", f"remaining {rem}, losers {losers}")
    if g is not None and tb is not None and not el.election_states[-1].tiebreaks:
        out.fail(sub, "tiebreak_not_recorded", f"{g} straddle seat {m} but no tiebreak is recorded")


def check(case):
    out = Outcome()
    rule, cfg = case["rule"], case["cfg"]
    out.label(f"rule={rule}", f"variant={case['variant']['kind']}")
    if case.get("prior"):
        # the same ballots are first counted for a longer candidate list (two extra candidates nobody
        # scored): what a profile's totals and winners are does not depend on what was counted before
        try:
            pcfg = dict(cfg, m=1, tiebreak="random")
            E.run(rule, C.mk_profile(case["ballots"], list(case["cands"]) + ["Zz1", "Zz2"]), pcfg, case["rng"])
        except Exception:  # noqa: BLE001  (the prior run is not the subject)
            pass
    judge_valid(out, case, case["ballots"], "valid_profile")
    nobody = len({c for b in case["ballots"] for c in b["s"]}) < len(case["cands"])
    var = make_variant(case)
    if var is None:
        out.nontrivial = nobody
        return out
    bl, expect = var
    if expect == "accept":
        judge_valid(out, case, bl, "boundary_variant")
    else:
        try:
            prof = C.mk_profile(bl, case["cands"])
        except Exception as exc:  # noqa: BLE001
            out.fail("invalid_variant", "profile_construction", repr(exc))
            return out
        res = E.run(rule, prof, cfg, case["rng"])
        if res.exc is None:
            out.fail("invalid_variant", "accepted",
                     f"{rule} {cfg} L={case['L']} k={case['k']}: ballot {case['variant']['index']} = "
                     f"{bl[case['variant']['index']]} violates '{case['variant']['kind']}' but a result exists: {res.states[-1]}")
        elif res.exc_type != "TypeError":
            out.fail("invalid_variant", res.exc_type,
                     f"{rule} {cfg}: '{case['variant']['kind']}' rejected with {res.exc!r}, expected TypeError", callee=res.frame)
        elif res.states:
            out.fail("invalid_variant", "partial_result", f"rounds were recorded before the TypeError: {res.states}")
    out.nontrivial = (case["variant"]["index"] > 0 or case["variant"]["kind"] in ("over_L", "over_k", "exact_L", "exact_k") or nobody)
    if out.nontrivial:
        out.labels.insert(0, f"nt:{rule}:{case['variant']['kind']}")
    return out
