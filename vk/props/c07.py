"""C07 - STV meets Droop proportionality for solid coalitions (IRV majority criterion)."""

from __future__ import annotations

import itertools
from fractions import Fraction

from hypothesis import strategies as st

from .. import cases as C
from .. import elect as E
from .. import strategies as S
from ..ref import scoring as refs
from ..ref import stv as refstv
from ..run import Outcome
from . import c02

ID = "C07"
BUDGET = {"quick": 16000, "thorough": 200000}
FUZZ = {"thorough": 4000}  # coverage-guided stage: libFuzzer runs per worker (x16), see vk/fuzz.py
RULE = (
    "Hypothesis: untied profiles over 2-6 candidates with planted solid coalitions (a generated "
    "share of the ballots starts with a permutation of a chosen set S, anything after it; other "
    "ballots free; int weights for the random transfer, int or p/q otherwise) x m x "
    "simultaneous/one-by-one x fractional/random transfer x tiebreak in {random, borda, "
    "first_place} x seed-or-script; Droop quota; IRV on the same profiles.  Oracle: for EVERY "
    "non-empty candidate subset S, |elected & S| >= min(floor(W(S)/threshold), |S|, m) with W(S) "
    "the weight of ballots whose first |S| places are exactly S.  Thorough adds the exhaustive "
    "3-candidate profiles of C02.  Non-trivial = some S with 2 <= |S| < n and requirement >= 1 whose "
    "members are not simply the highest first-place candidates.  Distinct = SHA-1 of case JSON."
)
ASSUMPTIONS = [
    "a ballot supports S only if it lists all of S in its first |S| places",
    "runs that raise are judged by C01/C02, not here",
]


@st.composite
def case(draw):
    transfer = draw(st.sampled_from(["fractional", "fractional", "random"]))
    wk = "int" if transfer == "random" else draw(st.sampled_from(["int", "small", "rat"]))
    cands = draw(S.cand_names(2, 6, odd=False))
    n = len(cands)
    ballots = []
    for _ in range(draw(st.integers(1, 2))):
        k = draw(st.integers(1, n - 1)) if n > 1 else 1
        coal = list(draw(st.permutations(cands)))[:k]
        rest = [c for c in cands if c not in coal]
        for _ in range(draw(st.integers(1, 3))):
            pre = list(draw(st.permutations(coal)))
            tail = list(draw(st.permutations(rest)))[: draw(st.integers(0, len(rest)))]
            ballots.append({"r": [[c] for c in pre + tail], "w": draw(S.weight(wk))})
    for _ in range(draw(st.integers(0, 4))):
        ballots.append({"r": draw(S.untied_ranking(cands)), "w": draw(S.weight(wk))})
    ballots = list(draw(st.permutations(ballots)))[:9]
    rule = draw(st.sampled_from(["STV", "STV", "STV", "IRV"]))
    if n >= 4 and draw(st.integers(0, 3)) == 0:
        # planted: a coalition of k members owed k quotas, several of them reaching the quota in the
        # same round with ballots that pass from one co-winner to the next (chained surpluses)
        k = draw(st.integers(2, n - 1))
        q = draw(st.integers(2, 6))
        coal = list(draw(st.permutations(cands)))[:k]
        rest = [c for c in cands if c not in coal]
        mult = draw(st.lists(st.integers(0, 3), min_size=k, max_size=k))
        if sum(mult) != k:
            mult = [k] + [0] * (k - 1) if draw(st.booleans()) else [1] * k
            if draw(st.booleans()) and k >= 2:
                mult = [k - 1, 1] + [0] * (k - 2)
        ballots = []
        for i, mu in enumerate(mult):
            if mu:
                rot = coal[i:] + coal[:i]
                tail = list(draw(st.permutations(rest)))[: draw(st.integers(0, len(rest)))]
                ballots.append({"r": [[c] for c in rot + tail], "w": mu * q})
        others = q - 1
        for c in rest:
            if others <= 0:
                break
            w = draw(st.integers(1, others))
            ballots.append({"r": [[c]] + [[x] for x in list(draw(st.permutations(coal)))[: draw(st.integers(0, k))]], "w": w})
            others -= w
        rule = "STV"
        m_planted = k
    elif n >= 3 and draw(st.integers(0, 5)) == 0:
        # planted: a two-member coalition worth exactly two quotas whose second member only reaches
        # the quota through the FRACTIONAL surplus of the first (tallies T+x and T-x), against an
        # outsider on T-y with 0 < y < x < 1
        T = draw(st.integers(2, 6))
        x = draw(st.sampled_from([Fraction(1, 2), Fraction(2, 3), Fraction(9, 10), Fraction(5, 6)]))
        y = x * draw(st.sampled_from([Fraction(1, 2), Fraction(1, 3), Fraction(1, 5)]))
        a, b, c3 = cands[0], cands[1], cands[2]
        ballots = [{"r": [[a], [b]], "w": C.enc(T + x)}, {"r": [[b], [a]], "w": C.enc(T - x)},
                   {"r": [[c3]] + ([[cands[3]]] if n > 3 and draw(st.booleans()) else []), "w": C.enc(T - y)}]
        ballots = list(draw(st.permutations(ballots)))
        rule = "STV"
        transfer = "fractional"
        m_planted = 2
    else:
        m_planted = None
    return {
        "rule": rule, "cands": list(draw(st.permutations(cands))), "ballots": ballots,
        "m": 1 if rule == "IRV" else (m_planted or draw(st.integers(1, n))),
        "simultaneous": draw(st.booleans()), "transfer": "fractional" if rule == "IRV" else transfer,
        "tiebreak": draw(st.sampled_from(["random", "random", "borda", "first_place"])),
        "rng": draw(S.rng_spec()),
    }


def strategy(tier):
    return case()


def exhaustive(tier):
    if tier != "thorough":
        return None
    return _exh()


def _exh():
    for i, (cands, ballots) in enumerate(c02.small_profiles()):
        for j, (m, sim, tr) in enumerate([(1, True, "fractional"), (2, True, "fractional"),
                                           (2, False, "random"), (2, True, "random")]):
            yield {"rule": "STV", "cands": cands, "ballots": ballots, "m": m, "simultaneous": sim,
                   "transfer": tr, "tiebreak": "random", "rng": {"seed": i, "script": [i, j, i // 3]}}


def check(case):
    out = Outcome()
    cands, ballots, m = case["cands"], case["ballots"], case["m"]
    n = len(cands)
    prof = C.mk_profile(ballots, cands)
    cfg = {"m": m, "quota": "droop", "simultaneous": case["simultaneous"], "transfer": case["transfer"],
           "tiebreak": case["tiebreak"]}
    out.label(f"rule={case['rule']}", f"transfer={case['transfer']}", f"sim={case['simultaneous']}")
    res = E.run(case["rule"], prof, cfg, case["rng"])
    if res.exc is not None:
        out.label("raised")
        return out
    elected = {str(c) for s in res.election.get_elected() for c in s}
    total = sum((C.frac(b["w"]) for b in ballots), Fraction(0))
    thr = refstv.threshold(total, m, "droop")
    fp = refs.first_place(ballots, cands)
    top_m = {c for g in refs.ranking_from_scores(fp) for c in g}
    order = [c for g in refs.ranking_from_scores(fp) for c in g]
    nt = False
    for k in range(1, n + 1):
        for sub in itertools.combinations(cands, k):
            Sset = set(sub)
            W = Fraction(0)
            for b in ballots:
                r = [p[0] for p in b["r"]]
                if len(r) >= k and set(r[:k]) == Sset:
                    W += C.frac(b["w"])
            need = min(W // thr, k, m)
            if need <= 0:
                continue
            have = len(elected & Sset)
            if have < need:
                out.fail("droop_proportionality", "coalition_underrepresented",
                         f"{case['rule']} m={m} threshold {thr}: coalition {sorted(Sset)} is solid on weight {W} "
                         f"(>= {need} quotas) but only {have} of its members are among the elected {sorted(elected)}")
                return out
            if 2 <= k < n and Sset != set(order[:k]):
                nt = True
    out.nontrivial = nt
    if nt:
        out.labels.insert(0, f"nt:{case['transfer']}:sim={case['simultaneous']}")
    return out
