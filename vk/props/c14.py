"""C14 - ballot generators return well-formed profiles of exactly the requested size."""

from __future__ import annotations

from fractions import Fraction

from hypothesis import strategies as st

from .. import cases as C
from .. import gen as G
from .. import rng as R
from .. import strategies as S
from ..run import Outcome

ID = "C14"
BUDGET = {"quick": 16000, "thorough": 160000}
FUZZ = {"thorough": 4000}  # coverage-guided stage: libFuzzer runs per worker (x16), see vk/fuzz.py
MODELS = ["IC", "IAC", "from_point", "from_alpha", "name_PlackettLuce", "short_name_PlackettLuce",
          "name_BradleyTerry", "name_BradleyTerry_MCMC", "name_Cumulative", "slate_PlackettLuce",
          "slate_BradleyTerry", "slate_BradleyTerry_MCMC", "AlternatingCrossover", "CambridgeSampler",
          "OneDimSpatial", "Spatial", "ClusteredSpatial"]
RULE = (
    "Hypothesis: generator class in {" + ", ".join(MODELS) + "} x parameter set (1-3 blocs, exactly "
    "2 for AlternatingCrossover / CambridgeSampler, 1-2 for slate-Bradley-Terry; slate sizes 1-3; "
    "supports spanning 1e-6..1e3 with exact zeros; cohesion and proportion vectors as integers over "
    "their sum, 0 and 1 entries included; the blocs listed in independently generated orders in "
    "each parameter dictionary) x N in 1..60 (one case in fourteen 97/250/1000) x seeded stream; a "
    "decoy generator of the same class over the same bloc names is constructed before use and the "
    "same object is asked again for a different N; by_bloc=True is requested "
    "wherever the model supports it and compared with the by_bloc=False run under the same seed.  "
    "Oracle: validity predicates (size, whole positive weights, declared candidates, no repeats, "
    "completeness with zero-support candidates as one final tie, short-PL length, cumulative point "
    "count, per-bloc maps adding up, Huntington-Hill predicate for bloc sizes and the "
    "bloc/crossover split).  Non-trivial = a zero-support candidate, or a 0/1 entry in cohesion or "
    "proportions, or N smaller than the number of voter types, or unequal slate sizes.  Distinct = SHA-1."
)
ASSUMPTIONS = [
    "AlternatingCrossover and CambridgeSampler are not documented to produce complete rankings; only "
    "size, candidates, repeats and the bloc/crossover split are checked for them",
    "spatial models get explicit, valid *_dist_kwargs (the defaults depend on the numpy version)",
]


@st.composite
def case(draw):
    model = draw(st.sampled_from(MODELS))
    kN = draw(st.integers(0, 13))
    # mostly small N (where apportionment and short chains are delicate), sometimes large
    N = draw(st.sampled_from([97, 250, 1000])) if kN == 0 else draw(st.integers(1, 6 if kN < 4 else 60))
    c = {"model": model, "N": N, "seed": draw(S.seed)}
    if model in ("IC", "IAC", "from_point", "from_alpha", "OneDimSpatial", "Spatial", "ClusteredSpatial"):
        c["cands"] = draw(S.cand_names(1, 5, odd=True))
        n = len(c["cands"])
        if model == "from_point":
            parts = draw(st.lists(st.integers(1, 5), min_size=n, max_size=n))
            # dyadic values that sum to exactly 1.0 in floating point
            tot = 16
            vals = [max(1, round(p * tot / sum(parts))) for p in parts]
            vals[-1] = tot - sum(vals[:-1])
            if vals[-1] < 1:
                vals = [1] * (n - 1) + [tot - (n - 1)]
            c["point"] = {k: v / tot for k, v in zip(c["cands"], vals)}
        if model == "from_alpha":
            c["alpha"] = draw(st.sampled_from([0.5, 1, 5, "inf"]))
        if model == "ClusteredSpatial":
            c["per_cand"] = {k: draw(st.integers(0, 6)) for k in c["cands"]}
            if sum(c["per_cand"].values()) == 0:
                c["per_cand"][c["cands"][0]] = 1
            c["vdist"] = draw(st.sampled_from(["normal", "laplace", "logistic", "gumbel"]))
        if model == "Spatial":
            c["dim"] = draw(st.integers(1, 3))
        return c
    two = model in ("AlternatingCrossover", "CambridgeSampler")
    if model.startswith("slate_BradleyTerry"):
        nb = draw(st.integers(1, 2))
    elif two:
        nb = 2
    else:
        nb = draw(st.integers(1, 3))
    allow_zero = True
    c["params"] = draw(G.params(n_blocs=nb, max_slate=3 if nb <= 2 else 2, allow_zero=allow_zero))
    if two:
        # these models read interval.keys(): keep every support positive (the inner dictionaries
        # keep their generated key order: they are keyed by bloc name)
        p = c["params"]
        for b in p["intervals"]:
            for b2 in p["intervals"][b]:
                for k, v in p["intervals"][b][b2].items():
                    if C.frac(v) == 0:
                        p["intervals"][b][b2][k] = 1
        if model == "CambridgeSampler":
            # W_bloc defaults to the bloc with proportion >= 0.5; keep that well defined
            if C.frac(p["prop"]["W"]) < Fraction(1, 2):
                p["prop"]["W"], p["prop"]["C"] = p["prop"]["C"], p["prop"]["W"]
    if draw(st.integers(0, 4)) == 0:
        # construct through BallotGenerator.from_params (intervals drawn from Dirichlet distributions)
        c["via"] = "from_params"
        c["alphas"] = {b: {b2: draw(st.sampled_from([0.5, 1, 2, 10])) for b2 in c["params"]["slates"]}
                       for b in c["params"]["slates"]}
    if model == "CambridgeSampler" and draw(st.booleans()):
        c["explicit_WC"] = True
    ncand = sum(len(v) for v in c["params"]["slates"].values())
    if model == "short_name_PlackettLuce":
        c["ballot_length"] = draw(st.integers(1, ncand))
    if model == "name_Cumulative":
        c["num_votes"] = draw(st.integers(1, 5))
    return c


def strategy(tier):
    return case()


# ---- Huntington-Hill predicate -------------------------------------------------------------------


def hh_ok(props, alloc, n):
    """Is `alloc` a Huntington-Hill apportionment of n among parties with weights `props`?
    Divisor-method min-max inequality with d(k)=sqrt(k(k+1)), compared on squares in exact
    rationals; a party's first seat has infinite priority (ties among first seats by weight);
    zero-weight parties get nothing; any tie resolution is accepted."""
    props = [C.frac(p) for p in props]
    if sum(alloc) != n or any(a < 0 for a in alloc):
        return False
    if any(a > 0 and p == 0 for a, p in zip(alloc, props)):
        return False

    def prio(i, k):  # priority of party i for its (k+1)-th seat
        if props[i] == 0:
            return (-1, Fraction(0))
        if k == 0:
            return (1, props[i])
        return (0, props[i] ** 2 / (k * (k + 1)))

    for i, a in enumerate(alloc):
        if a == 0:
            continue
        for j, b in enumerate(alloc):
            if i != j and prio(i, a - 1) < prio(j, b):
                return False
    return True


# ---- helpers ---------------------------------------------------------------------------------------


def rmap(profile):
    m = {}
    for b in profile.ballots:
        k = (C.ranking_key(b.ranking), C.scores_key(b.scores))
        m[k] = m.get(k, Fraction(0)) + b.weight
    return m


def validate(out, sub, profile, declared, n_expected, complete, zero_sets=None, length=None, allow_empty=False):
    tot = Fraction(0)
    for b in profile.ballots:
        tot += b.weight
        if b.weight <= 0 or b.weight != int(b.weight):
            out.fail(sub, "weight_not_whole_positive", f"{b.weight}")
            return
        if not b.ranking:
            if allow_empty:
                continue
            out.fail(sub, "no_ranking", f"{b}")
            return
        flat = [str(c) for s in b.ranking for c in s]
        if len(flat) != len(set(flat)):
            out.fail(sub, "candidate_repeated", f"{b.ranking}")
            return
        if not set(flat) <= set(declared):
            out.fail(sub, "undeclared_candidate", f"{set(flat) - set(declared)} in {b.ranking}")
            return
        if length is not None and len(flat) != length:
            out.fail(sub, "ballot_length", f"{len(flat)} candidates on {b.ranking}, requested {length}")
            return
        if complete:
            if set(flat) != set(declared):
                out.fail(sub, "incomplete_ranking", f"{b.ranking} does not list {sorted(set(declared) - set(flat))}")
                return
            ok = False
            for z in (zero_sets or [frozenset()]):
                pos = [frozenset(str(c) for c in s) for s in b.ranking]
                if z:
                    ok_here = pos[-1] == frozenset(z) and all(len(p) == 1 for p in pos[:-1])
                else:
                    ok_here = all(len(p) == 1 for p in pos)
                ok = ok or ok_here
            if not ok:
                out.fail(sub, "zero_support_not_final_tie", f"{b.ranking}; zero-support sets {zero_sets}")
                return
    if tot != n_expected:
        out.fail(sub, "total_weight", f"total weight {tot}, requested {n_expected}")


def check(case):
    import numpy as np
    import votekit.ballot_generator as bg

    out = Outcome()
    model, N, seed = case["model"], case["N"], case["seed"]
    out.label(f"model={model}")

    def gen(fn, *a, **k):
        with R.owned(seed) as _:
            try:
                return fn(*a, **k), None
            except Exception as exc:  # noqa: BLE001
                return None, exc

    # ---- models without blocs --------------------------------------------------------------------
    if "cands" in case:
        cands = case["cands"]
        if model == "IC":
            g = bg.ImpartialCulture(candidates=cands)
        elif model == "IAC":
            g = bg.ImpartialAnonymousCulture(candidates=cands)
        elif model == "from_point":
            g = bg.BallotSimplex.from_point(point=case["point"], candidates=cands)
        elif model == "from_alpha":
            a = float("inf") if case["alpha"] == "inf" else case["alpha"]
            g = bg.BallotSimplex.from_alpha(alpha=a, candidates=cands)
        elif model == "OneDimSpatial":
            g = bg.OneDimSpatial(candidates=cands)
        elif model == "Spatial":
            d = case["dim"]
            g = bg.Spatial(candidates=cands, voter_dist=np.random.uniform,
                           voter_dist_kwargs={"low": 0.0, "high": 1.0, "size": d},
                           candidate_dist=np.random.normal,
                           candidate_dist_kwargs={"loc": 0.5, "scale": 0.3, "size": d})
        else:
            g = bg.ClusteredSpatial(candidates=cands, voter_dist=getattr(np.random, case["vdist"]),
                                    voter_dist_kwargs={"loc": 0, "scale": 0.4, "size": 2},
                                    candidate_dist=np.random.uniform,
                                    candidate_dist_kwargs={"low": 0.0, "high": 1.0, "size": 2})
        if model == "ClusteredSpatial":
            v, exc = gen(g.generate_profile_with_dict, dict(case["per_cand"]))
            N = sum(case["per_cand"].values())
        else:
            v, exc = gen(g.generate_profile, N)
        if exc is not None:
            out.fail("generate", type(exc).__name__, f"{model} N={N}: {exc!r}")
            return out
        prof = v[0] if isinstance(v, tuple) else v
        validate(out, "profile", prof, cands, N, complete=True)
        if list(prof.candidates) != list(cands):
            out.fail("profile", "candidates", f"{prof.candidates} vs {cands}")
        if isinstance(v, tuple) and model in ("Spatial", "ClusteredSpatial"):
            if set(v[1]) != set(cands) or len(v[2]) != N:
                out.fail("profile", "positions_shape", f"{len(v[1])} candidate positions, {len(v[2])} voter positions for N={N}")
        out.nontrivial = len(cands) >= 3 and N >= 3
        return out

    # ---- bloc models ---------------------------------------------------------------------------------
    params = case["params"]
    slates = params["slates"]
    blocs = list(slates)
    declared = [c for b in blocs for c in slates[b]]
    extra = {}
    cls_name = model.replace("_MCMC", "")
    if model == "short_name_PlackettLuce":
        extra["ballot_length"] = case["ballot_length"]
    if model == "name_Cumulative":
        extra["num_votes"] = case["num_votes"]
    if case.get("explicit_WC"):
        extra.update(W_bloc="W", C_bloc="C")
    try:
        if case.get("via") == "from_params":
            kw0 = G.build_kwargs(params)
            with R.owned(seed) as _:
                g = getattr(bg, cls_name).from_params(
                    slate_to_candidates=kw0["slate_to_candidates"], bloc_voter_prop=kw0["bloc_voter_prop"],
                    cohesion_parameters=kw0["cohesion_parameters"], alphas=case["alphas"], **extra)
            # Dirichlet draws are positive: no zero-support candidate except through a 0 cohesion
            params = dict(params, intervals={b: {b2: {c: 1 for c in slates[b2]} for b2 in blocs} for b in blocs})
            out.label("via_from_params")
        else:
            g = G.make(cls_name, params, **extra)
    except Exception as exc:  # noqa: BLE001
        out.fail("construct", type(exc).__name__, f"{model} {params}: {exc!r}")
        return out
    if case.get("decoy", True):
        # another generator of the same class over the same bloc names but different numbers is
        # built (and dropped) before g is used: g's output is a function of g's own parameters
        dec = G.decoy(params)
        try:
            with R.owned(seed + 1) as _:
                G.make(cls_name, dec, **extra)
        except Exception:  # noqa: BLE001  (the decoy's own validity is not the subject)
            pass
    kw = {}
    if model == "slate_BradleyTerry_MCMC":
        kw["deterministic"] = False
    fn = g.generate_profile_MCMC if model == "name_BradleyTerry_MCMC" else g.generate_profile
    v, exc = gen(fn, N, by_bloc=True, **kw)
    props = [params["prop"][b] for b in blocs]
    n_types = len(blocs) * (2 if model in ("AlternatingCrossover", "CambridgeSampler") else 1)
    few = N < n_types
    if few:
        out.label("N<voter_types")
    if exc is not None:
        out.fail("generate", type(exc).__name__, f"{model} N={N} {params}: {exc!r}")
        return out
    by_bloc, agg = v
    # zero-support sets per bloc
    zero = {}
    for b in blocs:
        if cls_name in G.NAME_MODELS:
            z = set()
            for b2 in blocs:
                co = C.frac(params["cohesion"][b][b2])
                for cnd, sup in params["intervals"][b][b2].items():
                    if co == 0 or C.frac(sup) == 0:
                        z.add(cnd)
            zero[b] = frozenset(z)
        else:
            zero[b] = frozenset(cnd for b2 in blocs for cnd, sup in params["intervals"][b][b2].items() if C.frac(sup) == 0)
    complete = cls_name in ("name_PlackettLuce", "name_BradleyTerry", "slate_PlackettLuce", "slate_BradleyTerry")
    sizes = []
    summed = {}
    for b in blocs:
        pb = by_bloc[b]
        sizes.append(int(pb.total_ballot_wt))
        for k, w in rmap(pb).items():
            summed[k] = summed.get(k, Fraction(0)) + w
        if model == "name_Cumulative":
            for bl in pb.ballots:
                sc = bl.scores or {}
                if bl.ranking or sum(sc.values(), Fraction(0)) != case["num_votes"] or any(x != int(x) or x <= 0 for x in sc.values()):
                    out.fail("cumulative", "points", f"{bl.scores} ranking={bl.ranking}, num_votes={case['num_votes']}")
                    break
                if set(map(str, sc)) & zero[b] or not set(map(str, sc)) <= set(declared):
                    out.fail("cumulative", "unsupported_candidate_scored", f"{sc} zero-support {set(zero[b])}")
                    break
                if bl.weight <= 0 or bl.weight != int(bl.weight):
                    out.fail("cumulative", "weight_not_whole_positive", f"{bl.weight}")
                    break
        else:
            ln = None
            if model == "short_name_PlackettLuce":
                ln = case["ballot_length"]
            # CambridgeSampler with cohesion 0/1 can leave a historical ballot type without any
            # candidate to fill it; an empty ballot is outside what the statement describes
            validate(out, "bloc_profile", pb, declared, pb.total_ballot_wt, complete, [zero[b]], ln,
                     allow_empty=(model == "CambridgeSampler"))
    if rmap(agg) != summed:
        out.fail("aggregate", "blocs_do_not_add_up", f"aggregate {rmap(agg)} vs sum of blocs {summed}")
    if agg.total_ballot_wt != N:
        out.fail("aggregate", "total_weight", f"{agg.total_ballot_wt} vs N={N}")
    # the by_bloc=False run under the same seed is the same aggregate
    v2, exc2 = gen(fn, N, by_bloc=False, **kw)
    if exc2 is not None or rmap(v2) != rmap(agg):
        out.fail("aggregate", "by_bloc_flag_changes_result", f"{exc2!r}")
    # the same object asked again for a different N: again exactly that size, blocs adding up
    # (a small N, but not below the number of voter types: that regime is finding F15's)
    N3 = n_types if N != n_types else n_types + 1
    v3, exc3 = gen(fn, N3, by_bloc=True, **kw)
    if exc3 is not None:
        out.fail("reuse", type(exc3).__name__, f"{model}: generate_profile({N3}) after generate_profile({N}): {exc3!r}")
    else:
        by3, agg3 = v3
        if agg3.total_ballot_wt != N3 or sum((by3[b].total_ballot_wt for b in blocs), Fraction(0)) != N3:
            out.fail("reuse", "size_after_earlier_call",
                     f"{model}: generate_profile({N3}) after generate_profile({N}) on the same object: aggregate weight "
                     f"{agg3.total_ballot_wt}, bloc weights {[str(by3[b].total_ballot_wt) for b in blocs]}")
    # Huntington-Hill
    if model in ("AlternatingCrossover", "CambridgeSampler"):
        types, alloc = [], []
        for i, b in enumerate(blocs):
            opp = blocs[(i + 1) % 2]
            co = C.frac(params["cohesion"][b][b])
            pr = C.frac(params["prop"][b])
            cross = sum((bl.weight for bl in by_bloc[b].ballots
                         if bl.ranking and str(next(iter(bl.ranking[0]))) in slates[opp]), Fraction(0))
            types += [co * pr, (1 - co) * pr]
            alloc += [int(by_bloc[b].total_ballot_wt - cross), int(cross)]
        if not hh_ok(types, alloc, N):
            out.fail("apportionment_few_seats" if few else "apportionment", "not_huntington_hill",
                     f"{model} N={N}: (bloc, cross) voter shares {[str(t) for t in types]} got {alloc}")
    else:
        if not hh_ok(props, sizes, N):
            out.fail("apportionment_few_seats" if few else "apportionment", "not_huntington_hill",
                     f"{model} N={N}: proportions {props} got bloc sizes {sizes}")
    zc = any(zero[b] for b in blocs)
    edge = any(C.frac(x) in (0, 1) for x in props) or any(C.frac(x) in (0, 1) for b in blocs for x in params["cohesion"][b].values())
    uneq = len({len(s) for s in slates.values()}) > 1
    for lab, on in (("zero_support", zc), ("zero_one_entry", edge), ("unequal_slates", uneq)):
        if on:
            out.label(lab)
    out.nontrivial = zc or edge or few or uneq
    if out.nontrivial:
        out.labels.insert(0, f"nt:{model}")
    return out
