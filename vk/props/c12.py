"""C12 - ballot-editing utilities preserve order and lose no votes except exhausted ones."""

from __future__ import annotations

import itertools
import math
from fractions import Fraction

from hypothesis import strategies as st

from .. import cases as C
from .. import elect as E
from .. import strategies as S
from ..ref import scoring as ref
from ..run import Outcome

ID = "C12"
BUDGET = {"quick": 16000, "thorough": 200000}
FUZZ = {"thorough": 6000}  # coverage-guided stage: libFuzzer runs per worker (x16), see vk/fuzz.py
RULE = (
    "Hypothesis: (a) profile of 1-8 ballots with tied positions (partial, duplicates, int/p/q "
    "weights, zero-vote candidates, sometimes scores) x removal set (none/some/all/absent names) "
    "x condense x leave_zero_weight_ballots, run through remove_cand as profile, ballot tuple and "
    "single ballot, add_missing_cands, expand_tied_ballot, resolve_profile_ties; (b) profile of "
    "untied ballots with repeated candidates and blank (None) cells as the loaders produce them, "
    "with ranking-less ballots mixed in, run through remove_noncands, deduplicate_profiles, "
    "remove_empty_ballots, clean_profile (truncate / drop-a-name), merge_ballots.  Thorough "
    "enumerates all tied shapes over <= 4 candidates for expand_tied_ballot/remove_cand.  After "
    "every utility call the arguments are compared with a snapshot taken before it.  "
    "Non-trivial = the removal exhausts some ballots but not all and makes two different input "
    "rankings coincide.  Distinct = SHA-1 of canonical case JSON."
)
ASSUMPTIONS = [
    "content of an edited ballot = (ranking, scores); ids and voter sets are not compared except "
    "for merge_ballots' union",
    "remove_noncands on inputs with repeated candidates may or may not also de-duplicate "
    "(both mappings accepted)",
]


@st.composite
def case(draw):
    prof = draw(S.ranked_profile(1, 5, 8, tied=True))
    cands = prof["cands"]
    # sometimes attach scores to a ballot
    for b in prof["ballots"]:
        if draw(st.integers(0, 7)) == 0:
            ks = draw(st.lists(st.sampled_from(cands), min_size=1, max_size=len(cands), unique=True))
            b["s"] = {k: draw(st.integers(1, 3)) for k in ks}
    kind = draw(st.sampled_from(["none", "some", "some", "some", "all", "absent"]))
    if kind == "none":
        removed = []
    elif kind == "all":
        removed = list(cands)
    elif kind == "absent":
        removed = ["nobody"]
    else:
        removed = draw(st.lists(st.sampled_from(cands), min_size=1, max_size=len(cands), unique=True))
        if draw(st.integers(0, 4)) == 0:
            removed.append("nobody")
    if kind == "some" and len(cands) >= 2 and draw(st.booleans()):
        # planted structure: one ballot made only of removed names (exhausted), one ballot that
        # differs from an existing one only by a removed name (two rankings coincide afterwards)
        rs = [c for c in removed if c in cands]
        keep = [c for c in cands if c not in rs]
        if rs and keep:
            prof["ballots"].append({"r": draw(S.tied_ranking(rs)), "w": draw(S.weight())})
            base = draw(S.tied_ranking(keep))
            var = [list(p) for p in base]
            x = draw(st.sampled_from(rs))
            i = draw(st.integers(0, len(var)))
            if i < len(var) and draw(st.booleans()):
                var[i] = sorted(var[i] + [x])
            else:
                var.insert(i, [x])
            prof["ballots"].append({"r": base, "w": draw(S.weight())})
            prof["ballots"].append({"r": var, "w": draw(S.weight())})
    as_str = len(removed) == 1 and draw(st.booleans())
    # (b) loader-style ballots: singletons, repeats, blanks, ranking-less ballots
    toks = list(cands) + [None, "skipped"]
    lb = []
    for _ in range(draw(st.integers(1, 7))):
        if lb and draw(st.integers(0, 3)) == 0:
            r = draw(st.sampled_from(lb))["r"]
        elif draw(st.integers(0, 8)) == 0:
            r = None
        else:
            r = [[t] for t in draw(st.lists(st.sampled_from(toks), min_size=1, max_size=5))]
        b = {"r": r, "w": draw(S.weight())}
        if draw(st.integers(0, 4)) == 0:
            b["v"] = draw(st.lists(st.sampled_from(["v1", "v2", "v3", "v4"]), min_size=1, max_size=2, unique=True))
        lb.append(b)
    non = draw(st.lists(st.sampled_from(toks + ["nobody"]), max_size=3, unique=True))
    return {
        "cands": cands, "ballots": prof["ballots"], "removed": removed, "as_str": as_str,
        "condense": draw(st.booleans()), "leave_zero": draw(st.booleans()),
        "single": draw(st.integers(0, len(prof["ballots"]) - 1)),
        "loader_ballots": lb, "non_cands": non, "keep_candidates": draw(st.booleans()),
        "trunc": draw(st.integers(1, 3)), "drop": draw(st.sampled_from(toks)),
    }


def strategy(tier):
    return case()


def exhaustive(tier):
    if tier != "thorough":
        return None
    return _exh()


def _exh():
    from .c04 import _ordered_partitions

    cands = ["A", "B", "C", "D"]
    shapes = []
    for k in range(1, 5):
        for sub in itertools.combinations(cands, k):
            shapes.extend(_ordered_partitions(sub))
    rem_sets = [[], ["A"], ["B", "C"], ["A", "B", "C"], ["A", "B", "C", "D"], ["D", "nobody"]]
    for i, r in enumerate(shapes):
        for j, rem in enumerate(rem_sets):
            other = shapes[(i * 11 + j * 3 + 1) % len(shapes)]
            yield {
                "cands": cands, "ballots": [{"r": r, "w": 3}, {"r": other, "w": "1/2"}],
                "removed": rem, "as_str": False, "condense": bool((i + j) % 2),
                "leave_zero": bool(i % 2), "single": 0, "loader_ballots": [{"r": [["A"]], "w": 1}],
                "non_cands": [], "keep_candidates": True, "trunc": 1, "drop": "A",
            }


# ---- plain-data model ------------------------------------------------------------------------


def _strip(r, removed):
    """Delete names, drop emptied positions, keep order and grouping."""
    if r is None:
        return []
    out = []
    for pos in r:
        p = [c for c in pos if c not in removed]
        if p:
            out.append(sorted(p, key=C.skey))
    return out


def _key(r):
    return tuple(tuple(sorted(p, key=C.skey)) for p in (r or []))


def _skey(s):
    return tuple(sorted((c, C.frac(v)) for c, v in (s or {}).items()))


def _map_of_ballots(bs):
    m = {}
    for b in bs:
        k = (C.ranking_key(b.ranking), C.scores_key(b.scores))
        if b.weight != 0:
            m[k] = m.get(k, Fraction(0)) + b.weight
    return m


def _expected_remove(ballots, removed):
    m = {}
    lost = Fraction(0)
    for b in ballots:
        r = _strip(b.get("r"), removed)
        s = {c: v for c, v in (b.get("s") or {}).items() if c not in removed}
        w = C.frac(b["w"])
        if not r and not s:
            lost += w
            continue
        k = (_key(r), _skey(s))
        m[k] = m.get(k, Fraction(0)) + w
    return m, lost


def _linear_extensions(r):
    res = [[]]
    for pos in r:
        res = [pre + [[c] for c in perm] for pre in res for perm in itertools.permutations(sorted(pos))]
    return res


def _snap(x):
    """Everything observable about an argument (ballots in order, containers by value)."""
    from votekit.ballot import Ballot
    from votekit.pref_profile import PreferenceProfile

    if isinstance(x, PreferenceProfile):
        return ("P", tuple(_snap(b) for b in x.ballots), tuple(str(c) for c in (x.candidates or ())),
                x.total_ballot_wt, x.num_ballots)
    if isinstance(x, Ballot):
        return ("B", tuple(tuple(sorted(map(str, s))) for s in (x.ranking or ())),
                tuple(sorted((str(k), v) for k, v in (x.scores or {}).items())), x.weight,
                tuple(sorted(map(str, x.voter_set or ()))), x.id)
    if isinstance(x, (tuple, list)):
        return tuple(_snap(y) for y in x)
    return repr(x)


def icall(out, fn, *args):
    """E.call plus: an editing utility returns a new value and leaves its arguments as they were
    (ballots and profiles are immutable values; a utility that edits its argument in place loses
    or changes votes of the caller's profile)."""
    before = [_snap(a) for a in args]
    r = E.call(fn, *args)
    after = [_snap(a) for a in args]
    if before != after:
        i = next(j for j in range(len(args)) if before[j] != after[j])
        out.fail(getattr(fn, "__name__", "utility"), "argument_changed_in_place",
                 f"argument {i} before {before[i]} after {after[i]}")
    return r


def check(case):
    import votekit.utils as U
    import votekit.cleaning as CL
    from votekit.ballot import Ballot
    from votekit.pref_profile import PreferenceProfile

    out = Outcome()
    cands, ballots = case["cands"], case["ballots"]
    removed = list(case["removed"])
    rem_arg = removed[0] if case["as_str"] else removed
    condense, leave = case["condense"], case["leave_zero"]
    prof = C.mk_profile(ballots, cands)
    exp_map, lost = _expected_remove(ballots, set(removed))
    total = sum((C.frac(b["w"]) for b in ballots), Fraction(0))
    out.label(f"condense={condense}", f"leave_zero={leave}")

    def judge(name, got_ballots, n_in):
        got = _map_of_ballots(got_ballots)
        if got != exp_map:
            out.fail(name, "weights_per_ranking", f"removed={removed}: got {got}, expected {exp_map}")
        for b in got_ballots:
            names = {c for s in (b.ranking or ()) for c in s} | set((b.scores or {}).keys())
            if names & set(removed):
                out.fail(name, "removed_candidate_present", f"{names & set(removed)} in {b.ranking}")
        tw = sum((b.weight for b in got_ballots), Fraction(0))
        if tw != total - lost:
            out.fail(name, "total_weight", f"total {tw}, expected {total} - {lost} exhausted")
        if condense:
            ks = [(C.ranking_key(b.ranking), C.scores_key(b.scores)) for b in got_ballots]
            if len(ks) != len(set(ks)):
                out.fail(name, "not_condensed", f"{ks}")
        else:
            want_n = n_in if leave else n_in - sum(
                1 for b in ballots[:n_in] if not _strip(b.get("r"), set(removed))
                and not {c for c in (b.get("s") or {}) if c not in removed})
            if len(got_ballots) != want_n:
                out.fail(name, "ballot_count", f"{len(got_ballots)} ballots, expected {want_n}")
        if not leave and any(b.weight == 0 for b in got_ballots):
            out.fail(name, "zero_weight_left", "zero-weight ballot although leave_zero_weight_ballots=False")

    # ---- remove_cand: profile ---------------------------------------------------------------
    got, exc, _ = icall(out, U.remove_cand, rem_arg, prof, condense, leave)
    if exc is not None:
        out.fail("remove_cand_profile", type(exc).__name__, repr(exc))
    else:
        if not isinstance(got, PreferenceProfile):
            out.fail("remove_cand_profile", "return_type", type(got).__name__)
        else:
            judge("remove_cand_profile", got.ballots, len(ballots))
            want_c = tuple(c for c in cands if c not in removed)
            if tuple(got.candidates) != want_c:
                out.fail("remove_cand_profile", "candidates", f"{got.candidates} != {want_c}")
    # ---- remove_cand: tuple -------------------------------------------------------------------
    got, exc, _ = icall(out, U.remove_cand, rem_arg, prof.ballots, condense, leave)
    if exc is not None:
        out.fail("remove_cand_tuple", type(exc).__name__, repr(exc))
    elif not isinstance(got, tuple):
        out.fail("remove_cand_tuple", "return_type", type(got).__name__)
    else:
        judge("remove_cand_tuple", got, len(ballots))
    # ---- remove_cand: single ballot ---------------------------------------------------------
    sb = ballots[case["single"]]
    got, exc, _ = icall(out, U.remove_cand, rem_arg, C.mk_ballot(sb), condense, leave)
    if exc is not None:
        out.fail("remove_cand_ballot", type(exc).__name__, f"ballot {sb} removed={removed}: {exc!r}")
    elif not isinstance(got, Ballot):
        out.fail("remove_cand_ballot", "return_type", type(got).__name__)
    else:
        r = _strip(sb.get("r"), set(removed))
        s = {c: v for c, v in (sb.get("s") or {}).items() if c not in removed}
        if not r and not s:
            if got.weight != 0 or got.ranking or got.scores:
                out.fail("remove_cand_ballot", "exhausted_ballot_keeps_weight", f"{got!r}")
        else:
            if (C.ranking_key(got.ranking), C.scores_key(got.scores)) != (_key(r), _skey(s)) or got.weight != C.frac(sb["w"]):
                out.fail("remove_cand_ballot", "value", f"{sb} minus {removed} -> {got.ranking} {got.scores} w={got.weight}")

    # ---- add_missing_cands ----------------------------------------------------------------------
    ranked = [b for b in ballots]
    got, exc, _ = icall(out, U.add_missing_cands, prof)
    if exc is not None:
        out.fail("add_missing_cands", type(exc).__name__, repr(exc))
    else:
        em = {}
        for b in ranked:
            listed = {c for p in b["r"] for c in p}
            miss = sorted(c for c in cands if c not in listed)
            r = [sorted(p) for p in b["r"]] + ([miss] if miss else [])
            k = (_key(r), ())
            em[k] = em.get(k, Fraction(0)) + C.frac(b["w"])
        gm = {}
        for b in got.ballots:
            k = (C.ranking_key(b.ranking), ())
            gm[k] = gm.get(k, Fraction(0)) + b.weight
        if gm != em:
            out.fail("add_missing_cands", "weights_per_ranking", f"got {gm}, expected {em}")
        if set(got.candidates) != set(cands) or len(got.candidates) != len(cands):
            out.fail("add_missing_cands", "candidates", f"{got.candidates}")

    # ---- expand_tied_ballot / resolve_profile_ties --------------------------------------------
    em_all = {}
    for b in ballots:
        exts = _linear_extensions(b["r"])
        denom = math.prod(math.factorial(len(p)) for p in b["r"])
        w = C.frac(b["w"]) / denom
        got, exc, _ = icall(out, U.expand_tied_ballot, C.mk_ballot({"r": b["r"], "w": b["w"]}))
        if exc is not None:
            out.fail("expand_tied_ballot", type(exc).__name__, repr(exc))
            continue
        gk = sorted((C.ranking_key(x.ranking), x.weight) for x in got)
        ek = sorted((_key(e), w) for e in exts)
        if gk != ek:
            out.fail("expand_tied_ballot", "extensions", f"{b['r']} w={b['w']}: got {gk}, expected {ek}")
        for e in exts:
            em_all[_key(e)] = em_all.get(_key(e), Fraction(0)) + w
    got, exc, _ = icall(out, U.resolve_profile_ties, C.mk_profile([{"r": b["r"], "w": b["w"]} for b in ballots], cands))
    if exc is not None:
        out.fail("resolve_profile_ties", type(exc).__name__, repr(exc))
    else:
        gm = {}
        for b in got.ballots:
            gm[C.ranking_key(b.ranking)] = gm.get(C.ranking_key(b.ranking), Fraction(0)) + b.weight
        if gm != em_all:
            out.fail("resolve_profile_ties", "weights_per_ranking", f"got {gm}, expected {em_all}")
        if len(got.ballots) != len(gm):
            out.fail("resolve_profile_ties", "not_condensed", f"{len(got.ballots)} ballots for {len(gm)} rankings")
        # totals unchanged (first-place and Borda over the declared candidates)
        after = [{"r": [list(p) for p in C.ranking_key(b.ranking)], "w": C.enc(b.weight)} for b in got.ballots]
        plain = [{"r": b["r"], "w": b["w"]} for b in ballots]
        if ref.first_place(after, cands) != ref.first_place(plain, cands):
            out.fail("resolve_profile_ties", "first_place_changed", "")
        if ref.borda(after, cands) != ref.borda(plain, cands):
            out.fail("resolve_profile_ties", "borda_changed", "")

    # ---- cleaning module ------------------------------------------------------------------------
    lb = case["loader_ballots"]
    lp = C.mk_profile(lb)
    non = list(case["non_cands"])
    has_ranking = [b for b in lb if b["r"]]

    def dedup(r):
        o = []
        for p in r:
            if p not in o:
                o.append(p)
        return o

    def wmap(bs):
        m = {}
        for b in bs:
            k = C.ranking_key(b.ranking)
            m[k] = m.get(k, Fraction(0)) + b.weight
        return m

    if len(has_ranking) == len(lb):
        got, exc, _ = icall(out, CL.remove_noncands, lp, non)
        if exc is not None:
            out.fail("remove_noncands", type(exc).__name__, repr(exc))
        else:
            e1, e2 = {}, {}
            for b in lb:
                r1 = [p for p in b["r"] if p[0] not in non]
                r2 = dedup(r1)
                if r1:
                    e1[_key(r1)] = e1.get(_key(r1), Fraction(0)) + C.frac(b["w"])
                    e2[_key(r2)] = e2.get(_key(r2), Fraction(0)) + C.frac(b["w"])
            gm = wmap(got.ballots)
            if gm != e2 and gm != e1:
                out.fail("remove_noncands", "weights_per_ranking", f"non={non}: got {gm}, expected {e2}")
            for b in got.ballots:
                if any(next(iter(p)) in non for p in b.ranking):
                    out.fail("remove_noncands", "removed_candidate_present", f"{b.ranking}")
        got, exc, _ = icall(out, CL.deduplicate_profiles, lp)
        if exc is not None:
            out.fail("deduplicate_profiles", type(exc).__name__, repr(exc))
        else:
            e = {}
            for b in lb:
                k = _key(dedup(b["r"]))
                e[k] = e.get(k, Fraction(0)) + C.frac(b["w"])
            if wmap(got.ballots) != e:
                out.fail("deduplicate_profiles", "weights_per_ranking", f"got {wmap(got.ballots)}, expected {e}")
        # clean_profile with two simple cleaning functions
        k_tr, drop = case["trunc"], case["drop"]

        def f_trunc(b):
            return Ballot(ranking=b.ranking[:k_tr], weight=b.weight, voter_set=b.voter_set)

        def f_drop(b):
            return Ballot(ranking=tuple(p for p in b.ranking if drop not in p), weight=b.weight)

        for nm, fn, model in (
            ("clean_profile_trunc", f_trunc, lambda r: r[:k_tr]),
            ("clean_profile_drop", f_drop, lambda r: [p for p in r if drop not in p]),
        ):
            got, exc, _ = icall(out, CL.clean_profile, lp, fn)
            if exc is not None:
                out.fail(nm, type(exc).__name__, repr(exc))
                continue
            e = {}
            for b in lb:
                k = _key(model(b["r"]))
                e[k] = e.get(k, Fraction(0)) + C.frac(b["w"])
            if wmap(got.ballots) != e:
                out.fail(nm, "weights_per_ranking", f"got {wmap(got.ballots)}, expected {e}")
    # remove_cand on ballots that repeat candidates (raw loader form): every occurrence goes
    if has_ranking and len(has_ranking) == len(lb):
        lb3 = [{"r": [[("blank" if p[0] is None else p[0])] for p in b["r"]], "w": b["w"]} for b in lb]
        toks3 = sorted({p[0] for b in lb3 for p in b["r"]})
        rem3 = [t for t in toks3 if ("blank" if t is None else t) in {("blank" if x is None else x) for x in non}] or toks3[:1]
        if case["as_str"]:
            rem3 = rem3[:1]
        exp3, lost3 = {}, Fraction(0)
        for b in lb3:
            r = [p for p in b["r"] if p[0] not in rem3]
            if r:
                exp3[_key(r)] = exp3.get(_key(r), Fraction(0)) + C.frac(b["w"])
            else:
                lost3 += C.frac(b["w"])
        arg3 = rem3[0] if (case["as_str"] and len(rem3) == 1) else rem3
        for nm, obj in (("remove_cand_repeats_profile", C.mk_profile(lb3, toks3)),
                        ("remove_cand_repeats_tuple", C.mk_profile(lb3, toks3).ballots)):
            got, exc, _ = icall(out, U.remove_cand, arg3, obj, condense, False)
            if exc is not None:
                out.fail(nm, type(exc).__name__, repr(exc))
                continue
            gb = got.ballots if hasattr(got, "ballots") else got
            gm = {}
            for b in gb:
                k = tuple(tuple(sorted(str(c) for c in s_)) for s_ in b.ranking)
                gm[k] = gm.get(k, Fraction(0)) + b.weight
            if gm != exp3:
                out.fail(nm, "weights_per_ranking", f"removed {rem3} from {[b['r'] for b in lb3]}: got {gm}, expected {exp3}")
        first = lb3[0]
        got, exc, _ = icall(out, U.remove_cand, arg3, C.mk_ballot(first), condense, False)
        r = [p for p in first["r"] if p[0] not in rem3]
        if exc is not None:
            out.fail("remove_cand_repeats_ballot", type(exc).__name__, repr(exc))
        elif r and C.ranking_key(got.ranking) != _key(r):
            out.fail("remove_cand_repeats_ballot", "value", f"{first['r']} minus {rem3} -> {got.ranking}")
        elif not r and (got.weight != 0 or got.ranking):
            out.fail("remove_cand_repeats_ballot", "exhausted_ballot_keeps_weight", f"{got!r}")
    # add_missing_cands on ballots that repeat candidates (raw loader form)
    if has_ranking and len(has_ranking) == len(lb):
        toks = sorted({("blank" if p[0] is None else p[0]) for b in lb for p in b["r"]}) + ["extra1", "extra2"][: case["trunc"] - 1]
        lb2 = [{"r": [[("blank" if p[0] is None else p[0])] for p in b["r"]], "w": b["w"]} for b in lb]
        got, exc, _ = icall(out, U.add_missing_cands, C.mk_profile(lb2, toks))
        if exc is not None:
            out.fail("add_missing_cands_repeats", type(exc).__name__, repr(exc))
        else:
            em = {}
            for b in lb2:
                listed = {p[0] for p in b["r"]}
                miss = sorted(c for c in toks if c not in listed)
                r = [list(p) for p in b["r"]] + ([miss] if miss else [])
                em[_key(r)] = em.get(_key(r), Fraction(0)) + C.frac(b["w"])
            gm = {}
            for b in got.ballots:
                k = tuple(tuple(sorted(str(c) for c in s)) for s in b.ranking)
                gm[k] = gm.get(k, Fraction(0)) + b.weight
            if gm != em:
                out.fail("add_missing_cands_repeats", "weights_per_ranking", f"candidates {toks}: got {gm}, expected {em}")
    # remove_empty_ballots
    has_blank = any(p[0] is None for b in lb for p in (b["r"] or []))
    for keep in (case["keep_candidates"] and not has_blank,):
        lp2 = C.mk_profile(lb, None)
        got, exc, _ = icall(out, CL.remove_empty_ballots, lp2, keep)
        if exc is not None:
            out.fail("remove_empty_ballots", type(exc).__name__, repr(exc))
        else:
            want = [(_key(b["r"]), C.frac(b["w"])) for b in lb if b["r"]]
            gotl = [(C.ranking_key(b.ranking), b.weight) for b in got.ballots]
            if gotl != want:
                out.fail("remove_empty_ballots", "ballots", f"got {gotl}, expected {want}")
            if keep and tuple(got.candidates) != tuple(lp2.candidates):
                out.fail("remove_empty_ballots", "candidates", f"{got.candidates} vs {lp2.candidates}")
    # merge_ballots on ballots sharing the first loader ranking
    if has_ranking:
        r0 = has_ranking[0]["r"]
        same = [b for b in has_ranking if b["r"] == r0]
        got, exc, _ = icall(out, CL.merge_ballots, [C.mk_ballot(b) for b in same])
        if exc is not None:
            out.fail("merge_ballots", type(exc).__name__, repr(exc))
        else:
            w = sum((C.frac(b["w"]) for b in same), Fraction(0))
            vs = set()
            for b in same:
                vs |= set(b.get("v") or [])
            if got.weight != w or C.ranking_key(got.ranking) != _key(r0) or (got.voter_set or set()) != vs:
                out.fail("merge_ballots", "value", f"{same} -> {got.ranking} w={got.weight} v={got.voter_set}")

    # ---- non-trivial ---------------------------------------------------------------------------
    stripped = [(_key(b["r"]), _key(_strip(b["r"], set(removed)))) for b in ballots]
    some_ex = any(not s for _, s in stripped) and any(s for _, s in stripped)
    coincide = any(
        a[0] != b[0] and a[1] == b[1] and a[1] for a, b in itertools.combinations(stripped, 2)
    )
    if some_ex:
        out.label("some_exhausted")
    if coincide:
        out.label("rankings_coincide")
    out.nontrivial = some_ex and coincide
    return out
