"""Statistical decisions (DESIGN 1.6): chi-square goodness of fit with pooling, TV distance."""

from __future__ import annotations

from scipy.stats import chi2 as _chi2

ALPHA_RUN = 1e-9  # probability that a correct tree is flagged in one run of a check


def gof(observed: dict, probs: dict, min_expected=5.0):
    """observed: cell -> count; probs: cell -> probability (sums to 1).  Cells with expected
    count < min_expected are pooled into one.  Returns dict(stat, dof, p, n, impossible)."""
    n = sum(observed.values())
    impossible = [k for k, v in observed.items() if v > 0 and probs.get(k, 0.0) <= 0.0]
    if impossible:
        return {"stat": float("inf"), "dof": 0, "p": 0.0, "n": n, "impossible": impossible[:5]}
    cells = []
    pool_o, pool_e = 0.0, 0.0
    for k, p in probs.items():
        e = n * p
        o = observed.get(k, 0)
        if e < min_expected:
            pool_o += o
            pool_e += e
        else:
            cells.append((o, e))
    if pool_e > 0:
        if pool_e < min_expected and cells:
            # merge the small pool into the smallest ordinary cell
            i = min(range(len(cells)), key=lambda j: cells[j][1])
            cells[i] = (cells[i][0] + pool_o, cells[i][1] + pool_e)
        else:
            cells.append((pool_o, pool_e))
    dof = len(cells) - 1
    if dof < 1:
        return {"stat": 0.0, "dof": 0, "p": 1.0, "n": n, "impossible": []}
    stat = sum((o - e) ** 2 / e for o, e in cells)
    return {"stat": float(stat), "dof": dof, "p": float(_chi2.sf(stat, dof)), "n": n, "impossible": []}


def tv(observed: dict, probs: dict):
    n = sum(observed.values())
    keys = set(observed) | set(probs)
    return 0.5 * sum(abs(observed.get(k, 0) / n - probs.get(k, 0.0)) for k in keys)
