"""Hypothesis strategies shared by the property modules (DESIGN section 2).

Everything is plain data (see cases.py).  Built by construction, not by rejection."""

from __future__ import annotations

from fractions import Fraction

from hypothesis import strategies as st

from .cases import enc

PLAIN = ["A", "B", "C", "D", "E", "F", "G"]
ODD = ["Zed", "alice", "Bob Roy", "Ünal", "O'Neil", "x,y", "b", "a", 'q"t', "李", "Aa", "-k"]


@st.composite
def cand_names(draw, min_n=1, max_n=6, odd=True):
    n = draw(st.integers(min_n, max_n))
    if odd and draw(st.integers(0, 3)) == 0:
        pool = PLAIN + ODD
        names = draw(
            st.lists(st.sampled_from(pool), min_size=n, max_size=n, unique=True)
        )
    else:
        names = draw(st.permutations(PLAIN[:n])) if draw(st.booleans()) else PLAIN[:n]
    return list(names)


@st.composite
def int_weight(draw, hi=12):
    return draw(st.integers(1, hi))


@st.composite
def rat_weight(draw):
    if draw(st.integers(0, 7)) == 0:
        # exact rationals are not limited to small denominators: a Fraction weight is stored as given
        # (only ints and floats go through limit_denominator), so denominators beyond 10**6 are in
        # the domain too (standardised profiles, transfer values)
        q = draw(st.sampled_from([1000003, 3000017, 7000003, 2**31 - 1, 10**12 + 39]))
        return enc(Fraction(draw(st.integers(1, 12 * q)), q))
    if draw(st.integers(0, 15)) == 0:
        # ... nor to small magnitudes: whole and half-integral weights beyond 2**53, where a float
        # detour would round
        big = 2**53 + draw(st.integers(1, 99)) if draw(st.booleans()) else 10 ** draw(st.integers(7, 18)) + draw(st.integers(1, 9))
        return enc(Fraction(big * 2 + draw(st.integers(0, 1)), 2))
    q = draw(st.integers(1, 6))
    p = draw(st.integers(1, 12 * q))
    return enc(Fraction(p, q))


def weight(kind="mixed"):
    if kind == "int":
        return int_weight()
    if kind == "small":
        return int_weight(4)
    if kind == "rat":
        return rat_weight()
    return st.one_of(int_weight(), int_weight(4), rat_weight())


@st.composite
def untied_ranking(draw, cands, min_len=1, max_len=None):
    n = len(cands)
    max_len = n if max_len is None else min(max_len, n)
    k = draw(st.integers(min(min_len, max_len), max_len))
    perm = draw(st.permutations(cands))
    return [[c] for c in perm[:k]]


@st.composite
def tied_ranking(draw, cands, min_len=1):
    """A sequence of disjoint non-empty positions over a subset of the candidates."""
    n = len(cands)
    k = draw(st.integers(min(min_len, n), n))
    perm = list(draw(st.permutations(cands)))[:k]
    # cut points: each gap is a cut with probability ~1/2
    out = [[perm[0]]]
    for c in perm[1:]:
        if draw(st.booleans()):
            out.append([c])
        else:
            out[-1].append(c)
    return [sorted(p) for p in out]


@st.composite
def ranked_profile(
    draw,
    min_cands=1,
    max_cands=6,
    max_ballots=8,
    tied=False,
    weights="mixed",
    odd_names=True,
    extra_cands=True,
    tie_rich=False,
):
    """{"cands": [...], "ballots": [{"r":..., "w":...}]}.  `cands` is a superset of the cast
    candidates in a generated order (zero-vote candidates appear in a fair share of cases)."""
    cands = draw(cand_names(min_cands, max_cands, odd=odd_names))
    n = len(cands)
    # voters may only use a sub-pool, so some candidates get no vote at all
    if extra_cands and n > 1 and draw(st.integers(0, 2)) == 0:
        k = draw(st.integers(1, n - 1))
        pool = cands[:k]
    else:
        pool = cands
    nb = draw(st.integers(1, max_ballots))
    wkind = weights
    if weights == "mixed":
        wkind = draw(st.sampled_from(["int", "small", "rat", "small"]))
    if tie_rich:
        wkind = "small"
    ballots = []
    mk = tied_ranking if tied else untied_ranking
    for _ in range(nb):
        if ballots and draw(st.integers(0, 5)) == 0:
            # duplicate / mirror an earlier ranking on purpose
            src = draw(st.sampled_from(ballots))["r"]
            r = list(reversed(src)) if (tie_rich or draw(st.booleans())) else src
        else:
            r = draw(mk(pool))
        ballots.append({"r": r, "w": draw(weight(wkind))})
    if tie_rich and draw(st.booleans()):
        # rotations of one cycle with equal weight
        base = [c for p in ballots[0]["r"] for c in p]
        if len(base) >= 2:
            w = ballots[0]["w"]
            ballots = ballots[: max(1, max_ballots - len(base))]
            for i in range(len(base)):
                rot = base[i:] + base[:i]
                ballots.append({"r": [[c] for c in rot], "w": w})
    order = draw(st.permutations(cands))
    return {"cands": list(order), "ballots": ballots}


script = st.lists(st.integers(0, 999), min_size=0, max_size=24)
seed = st.integers(0, 2**20)


@st.composite
def rng_spec(draw):
    """Either a plain seed or a script (+ fallback seed) for the random layer."""
    if draw(st.booleans()):
        return {"seed": draw(seed)}
    return {"seed": draw(seed), "script": draw(script)}
